"""C01 -- parse() is total and returns a well-formed tree.

Totality in general is not decided.  Ten necessary conditions are:

R1  tokenizer subset-of tag handler: every token produced by the HTML start/end
    tag alternatives of the token regex is accepted by tag_fn's regexes
    (language inclusion) -- otherwise tag_fn raises "Could not match end tag".
R2  no alternative of the token regex can match the empty string.
R3  heading tables agree: the `=`-run bounds of header_re equal the key
    lengths of SUBTITLE_TO_KIND; KIND_TO_LEVEL covers the same kinds.
R4  numeric conversions on the parse path are soundly guarded (as C05.R2).
R5  finalise before transfer: children are merged/finalised immediately before
    they are moved into largs / temp_head / definition; the merge itself emits
    only non-empty finalised strings; strings stored in attrs are finalised.
R6  un-push idiom: a raw ctx.parser_stack.pop() is followed by removal of the
    node from its parent's children.
R7  parser state is reset per parse: every context attribute written on the
    tokenisation path is assigned in parse_encoded before process_text (or is
    managed by __enter__/__exit__); the stack is reset in `finally`; the closing
    loop stops exactly at ROOT.
R8  placement typestate: LIST_ITEM / TABLE_CAPTION / TABLE_ROW / cells are
    pushed only with LIST / TABLE / TABLE / TABLE_ROW on top of the stack.
R9  no pop loop can pop ROOT: every loop around _parser_pop stops at ROOT, or
    is dominated by a _parser_have() test for one of its stop kinds, or pops
    only explicitly tested non-ROOT kinds.
R10 entries of a defaultdict(list) stay lists while they are appended to.
"""

from __future__ import annotations

import ast
import re

import re._parser as sre_parse
import re._constants as sre_c

from ..core import rx
from ..core.flow import Flow
from ..core.guards import GuardWalker, caught_by
from ..core.index import EnumMember, Unfoldable, unparse, walk_no_nested
from ..core.report import AnalysisError, Finding, RuleResult
from . import _parser as P
from . import _expand as X
from . import c09

EXPLANATION = (
    "Regex language inclusion between the tokenizer's tag alternatives and tag_fn's own patterns "
    "(Thompson NFA over a computed alphabet partition, \\b modelled, shortest counterexample reported); "
    "nullability of every token alternative; a set-valued typestate walk over the kind on top of the "
    "parser stack proving the 11 row/cell/caption/list-item pushes and the pop loops; flow walks for "
    "finalise-before-transfer and the un-push idiom; effect analysis of the parser's context state. "
    "Holds for all input strings because each rule quantifies over all syntactic paths / all words of "
    "a regular language; absence of every other exception is not decided."
)
ASSUMPTIONS = [
    "Python's re semantics as modelled by the regex toolkit (no back-references/look-around in the compared patterns)",
    "handlers are reached only through tokenops / the dispatch chain of process_text",
    "a node kind with a fixed parent (row, cell, caption, list item) is directly under that parent -- established by R8 itself",
]


def _fold_pattern(ctx, mod, call: ast.Call):
    try:
        v = ctx.index.fold(mod, call.args[0])
    except Exception:  # noqa: BLE001
        return None
    return v if isinstance(v, str) else None


def _tag_fn_patterns(ctx):
    fn = ctx.fn("parser.tag_fn")
    start = end = None
    for n in walk_no_nested(fn):
        if isinstance(n, ast.Call) and unparse(n.func) == "re.match" and len(n.args) == 2 and unparse(n.args[1]) == "token":
            p = _fold_pattern(ctx, "parser", n)
            if p is None:
                raise AnalysisError("tag_fn: pattern not foldable")
            if p.startswith("</"):
                end = p if end is None else end
                if end != p:
                    raise AnalysisError("tag_fn: two different end-tag patterns")
            elif p.startswith("<"):
                start = p
    if start is None or end is None:
        raise AnalysisError("tag_fn: start/end tag regex not found")
    return start, end


def rule_r1(ctx) -> RuleResult:
    rr = RuleResult("C01.R1", "tokens of the tag alternatives are accepted by tag_fn's regexes", min_instances=3)
    tl = ctx.index.const("parser", "token_list")
    lt = [t for t in tl if t.lstrip("(").startswith("<")]
    rr.instances["token_alternatives_starting_with_lt"] = lt
    start_alts = [t for t in lt if not t.startswith("</") and not t.startswith("<<")]
    end_alts = [t for t in lt if t.startswith("</")]
    other = [t for t in lt if t.startswith("<<")]
    if len(start_alts) != 1 or len(end_alts) != 1:
        raise AnalysisError("token_list: expected one start-tag and one end-tag alternative, found {}/{}".format(len(start_alts), len(end_alts)))
    START, END = _tag_fn_patterns(ctx)
    thorough = ctx.thorough
    for name, a, b in (("start tag", start_alts[0], START), ("end tag", end_alts[0], END)):
        cex = rx.included_in_prefix(a, b, thorough=thorough)
        st = dict(rx.included_in_prefix.last_stats)
        if cex is None:
            rr.ok("parser.tag_fn", "L(token {}) within L(tag_fn {}).Sigma*".format(name, name),
                  {"inclusion": name, "product_states": st.get("states"), "alphabet_classes": st.get("alphabet_classes"), "tokenizer": a, "tag_fn": b})
        else:
            rr.bad(Finding("C01.R1", P.PARSER, "parser.tag_fn", "{} regex {!r}".format(name, b),
                           "the tokenizer produces the token {!r} which tag_fn's {} regex does not accept: tag_fn raises "
                           "Exception('Could not match end tag token') out of parse()".format(cex, name), 0,
                           {"counterexample": cex, "tokenizer_alternative": a}))
    # `<<...>>` tokens are tested first by tag_fn
    fn = ctx.index.func("parser.tag_fn")
    first_if = next((s for s in fn.body if isinstance(s, ast.If)), None)
    if other and first_if is not None and "token.startswith('<<')" in unparse(first_if.test):
        rr.ok("parser.tag_fn", "`<<...>>` tokens are diverted to text before the tag regexes")
    elif other:
        rr.bad(Finding("C01.R1", P.PARSER, "parser.tag_fn", "token.startswith('<<')", "`<<name>>` tokens reach the tag regexes and raise", fn.lineno))
    # the raise is still there? if not, the rule is moot but harmless
    return rr


def rule_r2(ctx) -> RuleResult:
    rr = RuleResult("C01.R2", "no token alternative matches the empty string", min_instances=20)
    tl = ctx.index.const("parser", "token_list")
    for alt in tl:
        try:
            n = rx.nullable(alt)
        except rx.Unsupported as e:
            raise AnalysisError("token alternative {!r}: {}".format(alt[:40], e))
        if n:
            rr.bad(Finding("C01.R2", P.PARSER, "parser.token_list", alt[:80],
                           "this alternative can match the empty string: finditer yields an empty token and `token[-1]` in process_text raises IndexError", 0))
        else:
            rr.ok("parser.token_list", alt[:60], {"alternative": alt[:60], "nullable": False})
    return rr


def rule_r3(ctx) -> RuleResult:
    rr = RuleResult("C01.R3", "heading regex, SUBTITLE_TO_KIND and KIND_TO_LEVEL agree", min_instances=3)
    hdr = ctx.index.const("parser", "header_re")
    stk = ctx.index.const("parser", "SUBTITLE_TO_KIND")
    k2l = ctx.index.const("parser", "KIND_TO_LEVEL")
    bounds = []
    for op, av in sre_parse.parse(str(hdr)):
        if op is sre_c.SUBPATTERN:
            sub = av[3]
            if len(sub) == 1 and sub[0][0] in (sre_c.MAX_REPEAT, sre_c.MIN_REPEAT):
                lo, hi, body = sub[0][1]
                if len(body) == 1 and body[0] == (sre_c.LITERAL, ord("=")):
                    bounds.append((lo, hi))
    lens = sorted(len(k) for k in stk)
    if len(bounds) == 2 and all(b == (min(lens), max(lens)) for b in bounds) and lens == list(range(min(lens), max(lens) + 1)) \
            and all(set(k) == {"="} for k in stk):
        rr.ok("parser.header_re", "={%d,%d} runs == key lengths of SUBTITLE_TO_KIND" % bounds[0], {"bounds": bounds, "keys": sorted(stk)})
    else:
        rr.bad(Finding("C01.R3", P.PARSER, "parser.header_re", str(hdr),
                       "the `=` run bounds {} differ from the key lengths {} of SUBTITLE_TO_KIND: SUBTITLE_TO_KIND[token] raises KeyError".format(bounds, lens), 0))
    if set(stk.values()) | {EnumMember("NodeKind", "ROOT")} == set(k2l) and all(k2l[v] == len(k) for k, v in stk.items()):
        rr.ok("parser.KIND_TO_LEVEL", "levels == marker lengths, plus ROOT")
    else:
        rr.bad(Finding("C01.R3", P.PARSER, "parser.KIND_TO_LEVEL", repr(sorted((str(k), v) for k, v in k2l.items())),
                       "KIND_TO_LEVEL is not {kind: len(marker)} + ROOT", 0))
    # the handlers index the table with the token minus its one-character prefix
    for f in ("subtitle_start_fn", "subtitle_end_fn"):
        fn = ctx.fn("parser." + f)
        src = unparse(fn)
        if "token = token[1:]" in src and "SUBTITLE_TO_KIND[token]" in src:
            rr.ok("parser." + f, "kind = SUBTITLE_TO_KIND[token[1:]]")
        else:
            rr.bad(Finding("C01.R3", P.PARSER, "parser." + f, "SUBTITLE_TO_KIND[token]", "heading token is not looked up after stripping its marker prefix", fn.lineno))
    return rr


def rule_r4(ctx) -> RuleResult:
    rr = RuleResult("C01.R4", "numeric conversions in the parser are soundly guarded", min_instances=1)
    m = ctx.index.mod("parser")
    for q, fn in m.funcs.items():
        if "." in q and q.split(".")[0] not in m.classes:
            continue  # nested defs are walked with their parent
        dotted = "parser." + q
        gw = GuardWalker(None)

        def visit(node, facts, handlers, dotted=dotted, gw=gw):
            if not (isinstance(node, ast.Call) and isinstance(node.func, ast.Name) and node.func.id in ("int", "float") and len(node.args) == 1):
                return
            e = node.args[0]
            et = unparse(e)
            label = "{}({})".format(node.func.id, et)
            ctx.touched(dotted, P.PARSER)
            if caught_by("ValueError", handlers):
                rr.ok(dotted, label, {"fn": dotted, "site": label})
            elif ("isdecimal", et) in facts:
                from ..core.guards import bounded_digits
                if node.func.id == "float" or bounded_digits(facts, et):
                    rr.ok(dotted, label, {"fn": dotted, "site": label})
                else:
                    rr.bad(Finding("C01.R4", P.PARSER, dotted, "int(·) after isdecimal() without a length bound",
                                   "isdecimal() does not imply that int() succeeds: a decimal string of more than 4300 digits makes int() raise "
                                   "ValueError (sys.int_max_str_digits), and parse() raises with it", node.lineno))
            elif ("isdigit", et) in facts:
                rr.bad(Finding("C01.R4", P.PARSER, dotted, label,
                               "guarded only by isdigit(): parse('{{PAGENAME|²=x}}') raises ValueError", node.lineno))
            else:
                rr.bad(Finding("C01.R4", P.PARSER, dotted, label, "conversion of text without a sound guard", node.lineno))

        gw.visit = visit
        gw.function(fn)
    return rr


NEUTRAL_FOR_MERGE = {"_parser_have", "len", "isinstance", "parse_attrs", "re.match"}


class Merged(Flow):
    """state: True when the children of the top node have just been merged and finalised"""

    def __init__(self):
        self.transfers = []

    def transfer_expr(self, node, state):
        if node is None:
            return [state]
        calls = [c for c in ast.walk(node) if isinstance(c, ast.Call)]
        calls.sort(key=lambda c: (c.end_lineno, c.end_col_offset))
        for c in calls:
            f = unparse(c.func)
            if f == "_parser_merge_str_children":
                state = True
            elif f in NEUTRAL_FOR_MERGE or (isinstance(c.func, ast.Attribute) and c.func.attr in P.STACK_NEUTRAL_METHODS and c.func.attr != "append"):
                pass
            elif isinstance(c.func, ast.Attribute) and c.func.attr == "append" and unparse(c.func.value).endswith(".largs"):
                # the transfer itself: argument is <x>.children
                if c.args and isinstance(c.args[0], ast.Attribute) and c.args[0].attr == "children":
                    self.transfers.append((c, state))
            elif isinstance(c.func, ast.Attribute) and c.func.attr == "append" and unparse(c.func.value).endswith(".children"):
                state = False
            elif isinstance(c.func, ast.Attribute) and c.func.attr in ("append", "pop") :
                pass
            else:
                state = False
        return [state]

    def transfer(self, st, state):
        (s,) = self.transfer_expr(st, state)
        if isinstance(st, ast.Assign) and len(st.targets) == 1 and isinstance(st.targets[0], ast.Attribute) \
                and st.targets[0].attr in ("temp_head", "definition") and isinstance(st.value, ast.Attribute) and st.value.attr == "children":
            self.transfers.append((st, s))
        return [s]


def rule_r5(ctx) -> RuleResult:
    rr = RuleResult("C01.R5", "children are merged and finalised before they are moved into argument fields", min_instances=8)
    m = ctx.index.mod("parser")
    n_sites = 0
    for q, fn in m.funcs.items():
        if "." in q:
            continue
        src = unparse(fn)
        if ".children" not in src or not any(k in src for k in (".largs.append(", ".temp_head =", ".definition =")):
            continue
        dotted = "parser." + q
        ctx.touched(dotted, P.PARSER)
        w = Merged()
        w.run_function(fn, [False])
        agg = {}
        for node, st in w.transfers:
            agg[node] = agg.get(node, True) and st
        for node, ok in agg.items():
            n_sites += 1
            label = unparse(node)
            if ok:
                rr.ok(dotted, label + "@{}".format(node.lineno), {"fn": dotted, "transfer": label, "merged_before": True})
            else:
                rr.bad(Finding("C01.R5", P.PARSER, dotted, label,
                               "children are moved into an argument field without _parser_merge_str_children(ctx) immediately before: "
                               "adjacent strings stay unmerged and placeholder characters are never resolved there", node.lineno))
    rr.instances["transfer_sites"] = n_sites
    # the merge itself
    mg = ctx.fn("parser._parser_merge_str_children")
    appends = [c for c in ast.walk(mg) if isinstance(c, ast.Call) and unparse(c.func) == "new_children.append"]
    str_appends = [c for c in appends if unparse(c.args[0]) != "x"]
    parents = m.parents
    good = bool(str_appends)
    for c in str_appends:
        v = c.args[0]
        src_ok = False
        if isinstance(v, ast.Name):
            asg = [n for n in ast.walk(mg) if isinstance(n, ast.Assign) and unparse(n.targets[0]) == v.id]
            src_ok = bool(asg) and all("._finalize_expand(" in unparse(a.value) for a in asg)
        n = c
        guarded = False
        while n in parents:
            n = parents[n]
            if isinstance(n, ast.If) and isinstance(v, ast.Name) and unparse(n.test) == v.id:
                guarded = True
                break
        good = good and src_ok and guarded
    if good:
        rr.ok("parser._parser_merge_str_children", "string children = non-empty ctx._finalize_expand(...)")
    else:
        rr.bad(Finding("C01.R5", P.PARSER, "parser._parser_merge_str_children", "new_children.append(s)",
                       "merged strings are not finalised through ctx._finalize_expand or may be empty", mg.lineno))
    for f in ("_parser_push", "_parser_pop"):
        fn = ctx.fn("parser." + f)
        first_calls = [unparse(s.value.func) for s in fn.body if isinstance(s, ast.Expr) and isinstance(s.value, ast.Call)]
        if first_calls and first_calls[0] == "_parser_merge_str_children":
            rr.ok("parser." + f, "merges before touching the stack")
        else:
            rr.bad(Finding("C01.R5", P.PARSER, "parser." + f, "_parser_merge_str_children(ctx)", f + " no longer merges/finalises the current node first", fn.lineno))
    # attribute strings
    tf = ctx.fn("parser.tag_fn")
    for c in [c for c in ast.walk(tf) if isinstance(c, ast.Call) and unparse(c.func) == "parse_attrs"]:
        arg = c.args[1]
        val = arg
        if isinstance(arg, ast.Name):
            asg = [n for n in walk_no_nested(tf) if isinstance(n, ast.Assign) and unparse(n.targets[0]) == arg.id]
            val = asg[-1].value if asg else arg
        if "_finalize_expand" in unparse(val):
            rr.ok("parser.tag_fn", "attrs finalised: " + unparse(c))
        else:
            rr.bad(Finding("C01.R5", P.PARSER, "parser.tag_fn", unparse(c),
                           "attribute text taken from the tag token is stored in node.attrs without ctx._finalize_expand: "
                           "`<span title=\"{{foo}}\">` leaves an internal placeholder character in the tree", c.lineno))
    return rr


def rule_r6(ctx) -> RuleResult:
    rr = RuleResult("C01.R6", "a raw stack pop is followed by removal of the node from its parent", min_instances=5)
    m = ctx.index.mod("parser")
    for q, fn in m.funcs.items():
        if "." in q:
            continue
        dotted = "parser." + q
        for blk in [n for n in ast.walk(fn) if hasattr(n, "body") and isinstance(getattr(n, "body"), list)]:
            for lst in (blk.body, getattr(blk, "orelse", []) or []):
                for i, st in enumerate(lst):
                    if isinstance(st, ast.Expr) and isinstance(st.value, ast.Call) and unparse(st.value.func) == "ctx.parser_stack.pop":
                        # the final statement of _parser_pop is the pop primitive itself
                        if q == "_parser_pop" and lst is fn.body and i == len(lst) - 1:
                            continue
                        follow = lst[i + 1:i + 5]
                        removed = any(".children.pop()" in unparse(s) for s in follow)
                        ctx.touched(dotted, P.PARSER)
                        if removed:
                            rr.ok(dotted, "pop@{} then children.pop()".format(st.lineno), {"fn": dotted, "line": st.lineno})
                        else:
                            rr.bad(Finding("C01.R6", P.PARSER, dotted, "ctx.parser_stack.pop() without parent.children.pop()",
                                           "a half-built node is taken off the stack but stays in the tree", st.lineno))
    return rr


def rule_r7(ctx) -> RuleResult:
    rr = RuleResult("C01.R7", "parser state is re-initialised by every parse and the stack is closed down to ROOT", min_instances=8)
    m = ctx.index.mod("parser")
    W: dict = {}
    for q, fn in m.funcs.items():
        if q in ("parse_encoded",) or "." in q and q.split(".")[0] in m.classes:
            continue
        for a, node, kind in c09._mutations(fn, False, False):
            W.setdefault(a, []).append(("parser." + q, node))
    pe = ctx.fn("parser.parse_encoded")
    assigned = set()
    try_stmt = None
    for st in pe.body:
        if isinstance(st, ast.Try):
            try_stmt = st
            break
        for a, node, kind in c09._mutations(ast.Module(body=[st], type_ignores=[]), False, False):
            if kind == "assign":
                assigned.add(a)
    if try_stmt is None:
        raise AnalysisError("parse_encoded: try/finally vanished")
    rr.instances["written_on_token_path"] = sorted(W)
    for a in sorted(W):
        if a in assigned:
            rr.ok("parser.parse_encoded", "ctx.{} assigned before process_text".format(a), {"attr": a})
        elif a in ("errors", "warnings", "debugs", "notes", "wiki_notices"):
            continue
        else:
            d, node = W[a][0]
            rr.bad(Finding("C01.R7", P.PARSER, d, "ctx." + a,
                           "written while tokens are processed but not re-initialised by parse_encoded: a previous (possibly aborted) "
                           "parse leaves it in a state that changes how the next text is parsed", node.lineno))
    fin = unparse(ast.Module(body=try_stmt.finalbody, type_ignores=[]))
    if "ctx.parser_stack = []" in fin:
        rr.ok("parser.parse_encoded", "finally: ctx.parser_stack = []")
    else:
        rr.bad(Finding("C01.R7", P.PARSER, "parser.parse_encoded", "finally: ctx.parser_stack = []", "the stack is not reset on every exit", try_stmt.lineno))
    # closing loop
    loops = [s for s in try_stmt.body if isinstance(s, ast.While)]
    pt = [s for s in try_stmt.body if "process_text(ctx, text)" in unparse(s)]
    ok = False
    if loops and pt and loops[0].lineno > pt[0].lineno:
        stop = _loop_stop_set(ctx, loops[0])
        ok = stop == frozenset(["ROOT"])
        rr.instances["closing_loop_stop_set"] = sorted(stop) if stop is not None else None
    if ok:
        rr.ok("parser.parse_encoded", "closing loop pops everything down to ROOT")
    else:
        rr.bad(Finding("C01.R7", P.PARSER, "parser.parse_encoded", "while True: ... if node.kind == NodeKind.ROOT: break; _parser_pop(ctx, True)",
                       "open nodes are not closed through _parser_pop down to exactly ROOT", pe.lineno))
    # BegLineDisableManager symmetric
    core = ctx.index.mod("core")
    en, ex = core.funcs.get("BegLineDisableManager.__enter__"), core.funcs.get("BegLineDisableManager.__exit__")
    if en is not None and ex is not None and "begline_disable_counter += 1" in unparse(en) and "begline_disable_counter -= 1" in unparse(ex):
        rr.ok("core.BegLineDisableManager", "counter += 1 / -= 1 in __enter__/__exit__")
    else:
        rr.bad(Finding("C01.R7", "src/wikitextprocessor/core.py", "core.BegLineDisableManager", "__enter__/__exit__",
                       "the begin-of-line disable counter is no longer balanced by a manager class whose __exit__ runs on exceptions", 0))
    return rr


def _loop_stop_set(ctx, loop: ast.While):
    """kinds of the top node for which the loop body exits (break/return) before calling _parser_pop;
    None if it cannot be determined"""
    kinds = P.all_kinds(ctx)
    stop = set()
    for k in kinds:
        w = P.TopKind(ctx, "?")
        o = w.run_block(loop.body, {(frozenset([k]), frozenset())})
        popped = bool(w.pops)
        exits = bool(o.brk) or bool(o.ret)
        if exits and not popped:
            stop.add(k)
        elif exits and popped:
            # e.g. `if kind == X: pop; break` -- pops X itself, then leaves
            pass
    return frozenset(stop)


def rule_r8(ctx) -> RuleResult:
    # non-vacuity: every one of the five kinds has at least one push site that was analysed (the number of sites is not fixed:
    # merging two arms that push the same kind is a refactoring)
    rr = RuleResult("C01.R8", "rows, cells, captions and list items are pushed only under their required parent", min_instances=5)
    required = {"LIST_ITEM": "LIST", "TABLE_CAPTION": "TABLE", "TABLE_ROW": "TABLE", "TABLE_HEADER_CELL": "TABLE_ROW", "TABLE_CELL": "TABLE_ROW"}
    m = ctx.index.mod("parser")
    seen_kinds: set = set()
    for q, fn in m.funcs.items():
        if "." in q or "_parser_push" not in unparse(fn) or q == "_parser_push":
            continue
        dotted = "parser." + q
        w = P.TopKind(ctx, dotted)
        w.run_function(fn, [(P.TOP, frozenset())])
        agg = {}
        for c, k, top in w.pushes:
            if k in required:
                agg.setdefault((c, k), []).append(top)
        for (c, k), tops in agg.items():
            ctx.touched(dotted, P.PARSER)
            need = required[k]
            label = "_parser_push(ctx, NodeKind.{})@{}".format(k, c.lineno)
            if any(t == P.TOP for t in tops):
                raise AnalysisError("{}: kind on top of the stack is unknown at {} (inconclusive)".format(dotted, label))
            union = frozenset().union(*tops)
            if union == frozenset([need]):
                rr.ok(dotted, label, {"fn": dotted, "push": k, "top_of_stack": sorted(union)})
            else:
                rr.bad(Finding("C01.R8", P.PARSER, dotted, "_parser_push(ctx, NodeKind.{})".format(k),
                               "a {} can be pushed while {} is on top of the stack (required parent: {})".format(
                                   k, ", ".join(sorted(union - {need})) or "nothing", need), c.lineno))
            seen_kinds.add(k)
    missing = sorted(set(required) - seen_kinds)
    if missing:
        raise AnalysisError("no push site of {} was found in the parser -- the rule no longer sees its anchors".format(", ".join(missing)))
    return rr


def rule_r9(ctx) -> RuleResult:
    rr = RuleResult("C01.R9", "no loop around _parser_pop can pop ROOT", min_instances=12)
    m = ctx.index.mod("parser")
    have_facts = {}

    def have_kinds(test):
        # `_parser_have(ctx, K)` true-facts from a test (possibly negated with early return)
        out = []
        for n in ast.walk(test):
            if isinstance(n, ast.Call) and unparse(n.func) == "_parser_have" and len(n.args) == 2:
                ks = P.kind_name(ctx, n.args[1])
                if ks:
                    out.append(ks)
        return out

    for q, fn in m.funcs.items():
        if "." in q:
            continue
        dotted = "parser." + q
        loops = [n for n in ast.walk(fn) if isinstance(n, (ast.While, ast.For))
                 and any(isinstance(c, ast.Call) and unparse(c.func) == "_parser_pop" for c in ast.walk(n))]
        # keep innermost loops only
        loops = [l for l in loops if not any(l2 is not l and any(x is l2 for x in ast.walk(l)) for l2 in loops)]
        for lp in loops:
            ctx.touched(dotted, P.PARSER)
            label = "loop@{} in {}".format(lp.lineno, q)
            if isinstance(lp, ast.For):
                # bounded by a count computed from the stack (range(...)): accepted when the bound excludes the bottom
                src = unparse(lp.iter)
                if "range(" in src:
                    rr.ok(dotted, label + " bounded for-loop", {"loop": src, "reason": "count derived from the position of a node found on the stack"})
                    continue
                raise AnalysisError("{}: unsupported pop loop {}".format(dotted, src))
            # loop condition is itself a presence test: `_parser_have(ctx, K)` or
            # `any(x.kind in K for x in ctx.parser_stack)`
            hk = have_kinds(lp.test)
            presence_with_root = False
            tt = lp.test
            if not hk and isinstance(tt, ast.Call) and unparse(tt.func) == "any" and len(tt.args) == 1 \
                    and isinstance(tt.args[0], ast.GeneratorExp) and unparse(tt.args[0].generators[0].iter) == "ctx.parser_stack":
                el = tt.args[0].elt
                if isinstance(el, ast.Compare) and isinstance(el.ops[0], ast.In) and unparse(el.left).endswith(".kind"):
                    ks = P.kind_name(ctx, el.comparators[0])
                    if ks:
                        hk = [ks]
            if hk and not any("ROOT" in g for g in hk):
                rr.ok(dotted, label + " runs only while a non-ROOT kind is on the stack", {"loop": unparse(lp.test)})
                continue
            if hk:
                presence_with_root = True
            # `while len(ctx.parser_stack) > E` with E >= 1 never reaches the bottom
            t = lp.test
            if isinstance(t, ast.Compare) and len(t.ops) == 1 and isinstance(t.ops[0], ast.Gt) and unparse(t.left) == "len(ctx.parser_stack)":
                e = t.comparators[0]
                ge1 = isinstance(e, ast.Constant) and isinstance(e.value, int) and e.value >= 1
                if isinstance(e, ast.Name):
                    for n in walk_no_nested(fn):
                        if isinstance(n, ast.For) and isinstance(n.target, ast.Name) and n.target.id == e.id and isinstance(n.iter, ast.Call) \
                                and unparse(n.iter.func) == "range" and len(n.iter.args) == 3 \
                                and isinstance(n.iter.args[1], ast.Constant) and n.iter.args[1].value >= 0 \
                                and unparse(n.iter.args[2]) == "-1":
                            ge1 = True
                if ge1:
                    rr.ok(dotted, label + " bounded below by a stack depth >= 1", {"loop": unparse(t)})
                    continue
                raise AnalysisError("{}: cannot bound `{}` away from the bottom of the stack (inconclusive)".format(dotted, unparse(t)))
            # `while <top>.kind not in K:` / `!= K`: the condition itself is the stop test of an iteration
            _probe = P.TopKind(ctx, dotted)
            # a name that is (re)bound to the top of the stack right before the loop and as the last statement of its body
            # denotes the top whenever the condition is evaluated
            loop_aliases = set()
            par_ = m.parents.get(lp)
            for fld_ in ("body", "orelse", "finalbody"):
                blk_ = getattr(par_, fld_, None)
                if isinstance(blk_, list) and any(x is lp for x in blk_):
                    i_ = [j for j, x in enumerate(blk_) if x is lp][0]
                    j_ = i_ - 1
                    # early exits in between run nothing on the path that reaches the loop
                    while j_ >= 0 and isinstance(blk_[j_], ast.If) and not blk_[j_].orelse and blk_[j_].body \
                            and isinstance(blk_[j_].body[-1], (ast.Return, ast.Raise)):
                        j_ -= 1
                    prev_ = blk_[j_] if j_ >= 0 else None
                    last_ = lp.body[-1] if lp.body else None
                    for a_, b_ in ((prev_, last_),):
                        if isinstance(a_, ast.Assign) and isinstance(b_, ast.Assign) and len(a_.targets) == 1 and len(b_.targets) == 1 \
                                and isinstance(a_.targets[0], ast.Name) and unparse(a_.targets[0]) == unparse(b_.targets[0]) \
                                and P.is_stack_top(a_.value) and P.is_stack_top(b_.value) \
                                and not any(isinstance(x, ast.Continue) for x in ast.walk(lp)):
                            loop_aliases.add(a_.targets[0].id)
            al0 = frozenset(loop_aliases)
            kind_cond = _probe._kind_test(t, al0) is not None or (
                isinstance(t, ast.UnaryOp) and isinstance(t.op, ast.Not) and _probe._kind_test(t.operand, al0) is not None)
            if not (isinstance(t, ast.Constant) and t.value) and not presence_with_root and not kind_cond:
                raise AnalysisError("{}: pop loop with an unrecognised condition `{}` (inconclusive)".format(dotted, unparse(t)))
            # for every kind on top: does one iteration pop, and does it certainly leave the loop?
            ranges = _int_ranges(ctx, fn)
            invalidated = []
            pops_kind, ends, may_end = set(), set(), set()
            for k in P.all_kinds(ctx):
                w = P.TopKind(ctx, dotted, ranges)
                entry_states = {(frozenset([k]), al0)}
                if kind_cond:
                    yes, no = w._branch(t, (frozenset([k]), al0))
                    if no:
                        may_end.add(k)
                    if not yes:
                        ends.add(k)
                        continue
                    entry_states = set(yes)
                o = w.run_block(lp.body, entry_states)
                if w.pops:
                    pops_kind.add(k)
                    if k == "ROOT" and w.lost_precision and w.lost_precision[0].end_lineno <= w.pops[0][0].lineno:
                        raise AnalysisError("{}: the walk loses track of the stack at `{}` before the pop (inconclusive)".format(
                            dotted, unparse(w.lost_precision[0])[:60]))
                if o.brk or o.ret:
                    may_end.add(k)
                if (o.brk or o.ret) and not o.fall and not o.cont:
                    ends.add(k)
            if "ROOT" not in pops_kind:
                rr.ok(dotted, label + " never pops ROOT (leaves at {})".format(",".join(sorted(ends))[:60]),
                      {"loop_line": lp.lineno, "fn": dotted, "leaves_at": sorted(ends)[:8]})
                continue
            # ROOT could be popped: accept only if some kind at which the loop certainly ends is known to be on the stack
            guards = []
            cg_, affecting_ = P.TopKind._graph(ctx)
            parents_ = m.parents

            def terminates(block) -> bool:
                return bool(block) and isinstance(block[-1], (ast.Return, ast.Raise, ast.Continue, ast.Break))

            # tests known to be FALSE when the loop is reached, each with the statements executed between the test and the loop:
            # (a) `if T: ...; return` earlier in a block that encloses the loop, (b) the loop sits in the else arm of `if T:`
            false_tests = []
            node_, between = lp, []
            while node_ in parents_ and node_ is not fn:
                par = parents_[node_]
                for fld in ("body", "orelse", "finalbody"):
                    blk = getattr(par, fld, None)
                    if isinstance(blk, list) and any(x is node_ for x in blk):
                        idx = [i for i, x in enumerate(blk) if x is node_][0]
                        before = blk[:idx]
                        for j in range(len(before) - 1, -1, -1):
                            st_ = before[j]
                            if isinstance(st_, ast.If) and not st_.orelse and terminates(st_.body):
                                false_tests.append((st_, before[j + 1:] + between))
                        between = before + between
                        if isinstance(par, ast.If) and fld == "orelse":
                            false_tests.append((par, list(between)))
                node_ = par
                if isinstance(par, (ast.FunctionDef, ast.AsyncFunctionDef)):
                    break
            for n, stmts_between in false_tests:
                t = n.test
                parts = t.values if isinstance(t, ast.BoolOp) and isinstance(t.op, ast.Or) else [t]
                found = []
                for v in parts:  # `not have(K) [or ...]` is false  => K present
                    if isinstance(v, ast.UnaryOp) and isinstance(v.op, ast.Not):
                        found.extend(have_kinds(v.operand))
                if not found:
                    continue
                # the presence fact survives only if nothing executed between the test and the loop can pop
                killers = []
                for st2 in stmts_between:
                    if isinstance(st2, ast.If) and terminates(st2.body) and not st2.orelse:
                        scope_nodes = [st2.test]   # an early exit: only its test is evaluated on the path that reaches the loop
                    elif isinstance(st2, ast.If):
                        scope_nodes = [st2.test]   # an if/elif chain whose else arm holds the loop: the tests on the way
                        if not any(x is lp for x in ast.walk(st2)):
                            scope_nodes = [st2]
                    else:
                        scope_nodes = [st2]
                    for sn in scope_nodes:
                        returned = {id(c) for r in ast.walk(sn) if isinstance(r, ast.Return) and r.value is not None
                                    for c in ast.walk(r.value)}
                        for c in ast.walk(sn):
                            if isinstance(c, ast.Call) and id(c) not in returned:
                                callees = cg_.callees_in(dotted, c)
                                if {x for x in callees if not x.startswith("%")} & affecting_:
                                    killers.append(c)
                if killers:
                    rr.informational.append({"fn": dotted, "guard": unparse(t)[:60], "invalidated_by": unparse(killers[0])[:60]})
                    invalidated.append((n, killers[0]))
                else:
                    guards.extend(found)
            found_guard = any(isinstance(n, ast.For) and n.orelse and n.lineno < lp.lineno and "parser_stack" in unparse(n.iter)
                              and isinstance(n.orelse[-1], ast.Return) for n in walk_no_nested(fn))
            if any(g <= ends or (g & ends and len(g) == 1) for g in guards):
                rr.ok(dotted, label + " dominated by _parser_have of a kind that ends the loop",
                      {"loop_line": lp.lineno, "guard": [sorted(g) for g in guards], "ends_at": sorted(ends)})
            elif found_guard and may_end - {"ROOT"}:
                rr.ok(dotted, label + " dominated by a successful search of the stack for the node it stops at",
                      {"loop_line": lp.lineno, "guard": "for/else search", "may_end_at": sorted(may_end)})
            else:
                extra = ""
                if invalidated:
                    extra = " (the presence test `{}` is evaluated before `{}`, which can itself close that node)".format(
                        unparse(invalidated[0][0].test)[:50], unparse(invalidated[0][1])[:40])
                rr.bad(Finding("C01.R9", P.PARSER, dotted, "pop loop (leaves at {})".format(",".join(sorted(ends)) or "nothing"),
                               "this loop keeps calling _parser_pop until a kind is on top that need not be on the stack, and it does not stop at "
                               "ROOT: when that node has already been closed the loop pops ROOT and parser_stack[-1] raises IndexError" + extra, lp.lineno))
    return rr


def _int_ranges(ctx, fn) -> dict:
    """local integer variables whose range is known from the tables: `level = KIND_TO_LEVEL[kind]`
    with `kind = SUBTITLE_TO_KIND[token]`"""
    out = {}
    src = unparse(fn)
    if "level = KIND_TO_LEVEL[kind]" in src and "kind = SUBTITLE_TO_KIND[token]" in src:
        stk = ctx.index.const("parser", "SUBTITLE_TO_KIND")
        k2l = ctx.index.const("parser", "KIND_TO_LEVEL")
        vals = [k2l[v] for v in stk.values()]
        out["level"] = (min(vals), max(vals))
    return out


def rule_r10(ctx) -> RuleResult:
    rr = RuleResult("C01.R10", "entries of a defaultdict(list) stay lists while they are appended to", min_instances=1)
    m = ctx.index.mod("parser")
    for q, fn in m.funcs.items():
        dds = {}
        for n in walk_no_nested(fn):
            if isinstance(n, (ast.Assign, ast.AnnAssign)) and getattr(n, "value", None) is not None:
                t = n.targets[0] if isinstance(n, ast.Assign) else n.target
                if isinstance(t, ast.Name) and unparse(n.value) == "defaultdict(list)":
                    dds[t.id] = n
        for name in dds:
            dotted = "parser." + q
            ctx.touched(dotted, P.PARSER)
            appended = any(isinstance(c, ast.Call) and isinstance(c.func, ast.Attribute) and c.func.attr == "append"
                           and isinstance(c.func.value, ast.Subscript) and unparse(c.func.value.value) == name for c in walk_no_nested(fn))
            if not appended:
                continue
            for n in walk_no_nested(fn):
                if isinstance(n, ast.Assign) and isinstance(n.targets[0], ast.Subscript) and unparse(n.targets[0].value) == name:
                    # stores inside the final normalisation loop over <name>.items() are the end of the protocol
                    p = m.parents.get(n)
                    in_final = False
                    while p is not None and p is not fn:
                        if isinstance(p, ast.For) and unparse(p.iter) == name + ".items()":
                            in_final = True
                        p = m.parents.get(p)
                    v = n.value
                    if in_final or isinstance(v, (ast.List, ast.ListComp)) or (isinstance(v, ast.Call) and unparse(v.func) == "list"):
                        rr.ok(dotted, unparse(n)[:60])
                    else:
                        rr.bad(Finding("C01.R10", P.PARSER, dotted, unparse(n),
                                       "a non-list value is stored under a key of `{}` that other code appends to: "
                                       "parse('{{{{PAGENAME||1=x}}}}') raises AttributeError ('str' object has no attribute 'append')".format(name),
                                       n.lineno))
    if rr.obligations == 0:
        rr.ok("parser", "no defaultdict(list) protocol in the parser")
    return rr


R11_INVARIANTS = {
    ("parser._parser_pop", "node.largs[0]"): "a PARSER_FN node always carries the function name as its first argument list (colon_fn / the retyping "
                                            "in _parser_pop happen after largs.append)",
    ("parser._parser_pop", "ctx.parser_stack[-1].children[-1]"): "the node just taken off the stack is the last child of its parent (only _parser_push adds nodes)",
}


def rule_r11(ctx) -> RuleResult:
    rr = RuleResult("C01.R11", "constant indexes into a node's argument/children lists are guarded", min_instances=15)
    targets = [("parser", q, f) for q, f in ctx.index.mod("parser").funcs.items()
               if "." not in q or q.split(".")[0] in ctx.index.mod("parser").classes]
    targets += [("core", q, ctx.index.mod("core").funcs[q]) for q in ("Wtp._fmt_errmsg",) if q in ctx.index.mod("core").funcs]
    for mod, q, fn in targets:
        gw = GuardWalker(None)
        base_q = mod + "." + q

        def visit(node, facts, handlers, base_q=base_q, gw=gw, mod=mod):
            if not (isinstance(node, ast.Subscript) and isinstance(node.ctx, ast.Load) and isinstance(node.value, ast.Attribute)
                    and node.value.attr in ("largs", "children")):
                return
            sl = node.slice
            if not (isinstance(sl, ast.Constant) and isinstance(sl.value, int)) and not (
                    isinstance(sl, ast.UnaryOp) and isinstance(sl.op, ast.USub) and isinstance(sl.operand, ast.Constant)):
                return
            dotted = gw.owner(base_q)
            base = unparse(node.value)
            label = unparse(node)
            relfile = ctx.index.mod(mod).relpath
            ctx.touched(dotted, relfile)
            ok = any(f[0] in ("truthy", "minlen") and f[1] == base for f in facts) or caught_by("IndexError", handlers)
            if ok:
                rr.ok(dotted, label + "@{}".format(node.lineno), {"fn": dotted, "index": label, "guard": "length/truthiness test"})
            elif (dotted, label) in R11_INVARIANTS:
                rr.ok(dotted, label + " (invariant)", {"fn": dotted, "index": label, "invariant": R11_INVARIANTS[(dotted, label)]})
            else:
                rr.bad(Finding("C01.R11", relfile, dotted, label,
                               "indexed without a dominating emptiness test: an open heading (or another node whose list is still empty) makes "
                               "this raise IndexError out of parse()", node.lineno))

        gw.visit = visit
        gw.function(fn)
    return rr


def rule_r12(ctx) -> RuleResult:
    """No placeholder character survives finalisation.  The texts the `_unexpanded_*` formatters
    return can contain further cookies (arguments are encoded innermost first), so
    `_finalize_expand` has to substitute until nothing changes -- the substitution sits in a loop
    left only when a pass changed nothing -- or every formatter result is itself substituted again."""
    rr = RuleResult("C01.R12", "finalisation substitutes cookies until a fixed point is reached", min_instances=1)
    fname = "core.Wtp._finalize_expand"
    fn = ctx.fn(fname)
    subs = [c for c in walk_no_nested(fn) if isinstance(c, ast.Call) and isinstance(c.func, ast.Attribute) and c.func.attr == "sub"
            and "MAGIC_RE" in unparse(c.func.value) and c.args]
    if not subs:
        raise AnalysisError("_finalize_expand: MAGIC_RE_PATTERN.sub(<replacer>, ...) vanished")
    repl_name, repl = X.cookie_replacer(ctx)
    repl_ref = unparse(subs[0].args[0])
    parents = ctx.index.mod("core").parents
    looped = False
    for c in subs:
        n = c
        while n in parents and n is not fn:
            n = parents[n]
            if isinstance(n, ast.While):
                # exit only through a comparison of the text before and after the pass
                brk = [b for b in ast.walk(n) if isinstance(b, ast.If) and any(isinstance(x, ast.Break) for x in b.body)
                       and isinstance(b.test, ast.Compare) and isinstance(b.test.ops[0], ast.Eq)]
                cond_cmp = isinstance(n.test, ast.Compare) and isinstance(n.test.ops[0], ast.NotEq)
                if brk or cond_cmp:
                    looped = True
    fmt_returns = [r for r in walk_no_nested(repl) if isinstance(r, ast.Return) and r.value is not None
                   and any(isinstance(c, ast.Call) and isinstance(c.func, ast.Attribute) and c.func.attr.startswith("_unexpanded_") for c in ast.walk(r.value))]
    all_recursive = bool(fmt_returns) and all(
        isinstance(r.value, ast.Call) and isinstance(r.value.func, ast.Attribute) and r.value.func.attr == "sub"
        and r.value.args and unparse(r.value.args[0]) == repl_ref for r in fmt_returns)
    if looped:
        rr.ok(fname, "substitution repeated until a pass changes nothing", {"formatter_returns": len(fmt_returns)})
    elif all_recursive:
        rr.ok(fname, "every formatter result is substituted again by magic_repl", {"formatter_returns": len(fmt_returns)})
    else:
        plain = [r for r in fmt_returns if not (isinstance(r.value, ast.Call) and isinstance(r.value.func, ast.Attribute) and r.value.func.attr == "sub")]
        rr.bad(Finding("C01.R12", "src/wikitextprocessor/core.py", fname, unparse(subs[0])[:70],
                       "cookies are substituted in a single pass, but {} of the {} formatter results are returned without being substituted again "
                       "(e.g. `{}`): a link or external link whose argument holds a template leaves a private-use placeholder character in "
                       "the tree (inside <pre>, in argument lists)".format(len(plain), len(fmt_returns), unparse(plain[0])[:50] if plain else "?"),
                       subs[0].lineno))
    return rr


def rule_r13(ctx) -> RuleResult:
    """'no internal placeholder character appears anywhere in the tree': while a page is being parsed
    the cookie table only grows (shared with C15.R5) -- the parser is re-entered from the encoder for
    links, so clearing the table at the end of a parse renumbers cookies that are still in use."""
    from ..core.report import shared
    from . import c15

    return shared(c15.rule_r5(ctx), "C01.R13", "the cookie table is not reset by the parser (shared with C15.R5)",
                  "placeholder characters whose entry was dropped stay in the tree or resolve to another construct", min_instances=6)

def rule_r14(ctx) -> RuleResult:
    """Internal placeholder characters (MAGIC_*_CHAR) that stand in for quotes, brackets and
    <nowiki /> while text is tokenised are turned back by `.replace(MAGIC_X, <literal>)` statements.
    Text reaches those statements from recursive calls and from callers with the placeholders
    already inserted, so the reversal must not depend on a local flag recording whether *this*
    invocation inserted one."""
    rr = RuleResult("C01.R14", "placeholder characters are turned back unconditionally (never under a local did-I-insert-it flag)", min_instances=4)
    for dotted, m, f in ctx.index.all_functions():
        if dotted.split(".")[0] not in ("core", "parser"):
            continue
        parents = m.parents
        flags = {}
        for n in walk_no_nested(f):
            if isinstance(n, ast.Assign) and len(n.targets) == 1 and isinstance(n.targets[0], ast.Name):
                flags.setdefault(n.targets[0].id, []).append(n.value)
        bool_flags = {k for k, vs in flags.items() if all(isinstance(v, ast.Constant) and isinstance(v.value, bool) for v in vs)}
        for n in walk_no_nested(f):
            if not (isinstance(n, ast.Call) and isinstance(n.func, ast.Attribute) and n.func.attr == "replace" and len(n.args) == 2
                    and isinstance(n.args[0], ast.Name) and re.fullmatch(r"MAGIC_[A-Z_]*CHAR", n.args[0].id)
                    and isinstance(n.args[1], ast.Constant)):
                continue
            guards = []
            q = n
            while q in parents and parents[q] is not f:
                q = parents[q]
                if isinstance(q, ast.If):
                    guards.extend(x.id for x in ast.walk(q.test) if isinstance(x, ast.Name) and x.id in bool_flags)
            label = unparse(n)[:60]
            if guards:
                rr.bad(Finding("C01.R14", m.relpath, dotted, label,
                               "the placeholder is only turned back when the local flag `{}` is set: text that arrives with the placeholder already "
                               "inserted (a recursive call, e.g. the title of a heading) keeps the private-use character, which ends up in "
                               "attribute values and strings of the tree".format(guards[0]), n.lineno))
            else:
                rr.ok(dotted, label + " is not flag-guarded", {"fn": dotted, "stmt": label})
    return rr


# token handlers of the pinned tree that open a node, confirmed by reading: each closes the lists opened at the beginning
# of a line before it pushes (13 of the 16 handlers that push; the other three are the reasoned exceptions below)
CBL_BEFORE_PUSH = ("text_fn", "hline_fn", "subtitle_start_fn", "italic_fn", "bold_fn", "url_fn", "magic_fn", "table_start_fn",
                   "table_caption_fn", "table_hdr_cell_fn", "table_row_fn", "table_cell_fn", "magicword_fn")
CBL_EXCEPTIONS = {
    "list_fn": "manages the open lists itself (pop_until_nth_list)",
    "double_vbar_fn": "pushes only a TABLE_ROW directly under an open TABLE; the cell is opened by table_cell_fn / table_hdr_cell_fn, which close the lists",
    "tag_fn": "decides per tag: inline HTML leaves the lists open on purpose (`# do not close_begline_lists`)",
}


def rule_r15(ctx) -> RuleResult:
    """A handler that opens a node under a list item left open from the previous line, and then hands its text to text_fn,
    has that node popped by text_fn's own close_begline_lists(); its trailing _parser_pop() then pops one level too many --
    down to an empty parser stack (IndexError out of parse(), seed C01-3A).  Inferred from the 13 conforming handlers, confirmed
    by reading, frozen above: close_begline_lists(ctx) is called on every path before the first _parser_push."""
    from ..core.flow import dominating_calls

    rr = RuleResult("C01.R15", "token handlers close begin-of-line lists before they open a node", min_instances=10)
    m = ctx.index.mod("parser")
    for name in CBL_BEFORE_PUSH:
        dotted = "parser." + name
        f = ctx.fn(dotted)
        res = dominating_calls(f, lambda n: isinstance(n, ast.Call) and unparse(n.func) == "close_begline_lists",
                               lambda n: isinstance(n, ast.Call) and unparse(n.func) == "_parser_push")
        if not res:
            # the handler no longer pushes itself (delegates): nothing to demand
            rr.informational.append({"handler": name, "note": "no _parser_push left in this handler"})
            continue
        for call, dominated in res:
            if dominated:
                rr.ok(dotted, "close_begline_lists precedes " + unparse(call)[:50])
            else:
                rr.bad(Finding("C01.R15", P.PARSER, dotted, unparse(call)[:60],
                               "a path reaches this push without close_begline_lists(ctx): with a list item open from the previous line the "
                               "node is opened inside it, popped again by the nested text_fn, and the handler's own pop then empties the parser stack",
                               call.lineno))
    others = []
    for q, f in m.funcs.items():
        if "." in q or q in CBL_BEFORE_PUSH or q in CBL_EXCEPTIONS:
            continue
        if q.endswith("_fn") and any(isinstance(c, ast.Call) and unparse(c.func) == "_parser_push" for c in walk_no_nested(f)):
            others.append(q)
    if others:
        rr.informational.append({"handlers_not_in_the_frozen_table": others})
    rr.instances["exceptions"] = CBL_EXCEPTIONS
    return rr


def rule_r16(ctx) -> RuleResult:
    """'no internal placeholder character appears anywhere in the tree': encoded text is made of placeholder characters whose
    meaning is their index in the page's cookie table; a memoised function that returns encoded text hands out, on the next
    page, characters that index a different table and survive into the tree (seed C01-7A).  Shared with C09.R10."""
    from ..core.callgraph import CallGraph
    from ..core.report import shared

    return shared(c09.rule_r10(ctx, CallGraph(ctx.index)), "C01.R16", "no memoised function returns or reaches per-page encoded text (shared with C09.R10)",
                  "placeholder characters of an earlier page end up in the parse tree", min_instances=1)


def rule_r17(ctx) -> RuleResult:
    """parse() serialises subtrees while it parses (check_for_attributes -> node_to_wikitext): an exception in the serialiser
    is an exception out of parse().  Shared with C19.R11."""
    from ..core.report import shared
    from . import c19

    return shared(c19.rule_r11(ctx), "C01.R17", "the serialiser the parser calls does not raise on fields that are None (shared with C19.R11)",
                  "parse() raises for a document that puts such a node where the table parser looks for attributes", min_instances=1)


def rule_r18(ctx) -> RuleResult:
    r"""text_fn appends the link trail -- group 1 of `linktrailing_re` matched against the text after `]]` -- straight to the
    children of a LINK node that is already closed; that string is never merged or finalised again.  The text it is matched
    against can contain placeholder characters (the `<nowiki/>` marker, the bracket escapes, cookies).  So group 1 must not be
    able to consume one: language inclusion  L(group 1) ⊆ (Σ minus the placeholder range)*  (seed C01-9A: `\w+` widened to
    "any non-ASCII character except punctuation", which takes in the private-use plane)."""
    import re as _re
    import re._constants as _c
    from ..core import rx

    rr = RuleResult("C01.R18", "the link-trail pattern cannot consume a placeholder character", min_instances=1)
    init = ctx.fn("core.Wtp.__init__")
    pats = [n.value for n in walk_no_nested(init) if isinstance(n, ast.Assign) and len(n.targets) == 1 and unparse(n.targets[0]) == "self.linktrailing_re"]
    if len(pats) != 1:
        raise AnalysisError("Wtp.__init__: the default of linktrailing_re was not found")
    try:
        pat = ctx.index.fold("core", pats[0])
    except Exception:  # noqa: BLE001
        raise AnalysisError("Wtp.__init__: linktrailing_re is not a foldable pattern")
    pat = str(getattr(pat, "pattern", pat))
    tree = rx.parse(pat)
    g1 = None
    for op, av in tree:
        if op is _c.SUBPATTERN and av[0] == 1:
            g1 = av[3]
    if g1 is None:
        raise AnalysisError("linktrailing_re: group 1 not found at the top level of {!r}".format(pat))
    lo = ctx.index.const("common", "MAGIC_NUMBER")
    hi = ctx.index.const("common", "MAGIC_LAST")
    safe = "(?s)[^{}-{}]*".format(_re.escape(chr(lo)), _re.escape(chr(hi)))
    cex = rx.included_in_prefix(pat, safe, thorough=ctx.thorough, flags_a=tree.state.flags, items_a=list(g1), full=True)
    if cex is None:
        rr.ok("core.Wtp.__init__", "group 1 of {!r} matches no placeholder character".format(pat), {"pattern": pat})
    else:
        rr.bad(Finding("C01.R18", "src/wikitextprocessor/core.py", "core.Wtp.__init__", "linktrailing_re = {!r}".format(pat)[:90],
                       "group 1 can match {!r}, which contains a placeholder character (U+{:X}): text_fn appends that match to the children "
                       "of an already closed LINK node, which are never finalised again, so the placeholder stays in the tree "
                       "(`[[cat]]s<nowiki/>...`)".format(cex, max(ord(ch) for ch in cex)), pats[0].lineno))
    return rr


def rule_r19(ctx) -> RuleResult:
    """TemplateNode.template_name cuts a name that starts with a namespace prefix at `name.index(":")`; a prefix without the
    separator makes that raise out of parse() (shared with C10.R19)."""
    from ..core.report import shared
    from . import c10

    return shared(c10.rule_r19(ctx), "C01.R19", "every namespace prefix ends with its separator (shared with C10.R19)",
                  "parse() raises ValueError for a template whose name starts with the bare namespace word", min_instances=1)


def rule_r20(ctx) -> RuleResult:
    """Placeholders are the characters MAGIC_FIRST..MAGIC_LAST; the tokenizer, the parser and `_finalize_expand` recognise exactly
    that range.  `_save_value` allocates `chr(MAGIC_FIRST + idx)`, so the allocation must be preceded by an exit for every
    `idx >= MAX_MAGICS` (= MAGIC_LAST - MAGIC_FIRST + 1): one index too many yields a character nobody turns back, and the raw
    placeholder stays in the tree (seed C01-10A: `>` for `>=`).  The guard is folded for idx = MAX_MAGICS - 1, MAX_MAGICS,
    MAX_MAGICS + 1."""
    rr = RuleResult("C01.R20", "a placeholder is allocated only inside the range the parser turns back", min_instances=1)
    dotted = "core.Wtp._save_value"
    fn = ctx.fn(dotted)
    cm = ctx.index.mod("common")
    mm = [a for a in cm.tree.body if isinstance(a, (ast.Assign, ast.AnnAssign)) and unparse(a.targets[0] if isinstance(a, ast.Assign) else a.target) == "MAX_MAGICS"]
    if not mm or unparse(mm[-1].value).replace(" ", "") not in ("MAGIC_LAST-MAGIC_FIRST+1", "MAGIC_LAST+1-MAGIC_FIRST", "1+MAGIC_LAST-MAGIC_FIRST"):
        raise AnalysisError("common.MAX_MAGICS is no longer defined as MAGIC_LAST - MAGIC_FIRST + 1 (inconclusive)")
    allocs = [c for c in walk_no_nested(fn) if isinstance(c, ast.Call) and unparse(c.func) == "chr" and c.args and "MAGIC_FIRST" in unparse(c.args[0])]
    if len(allocs) != 1 or not isinstance(allocs[0].args[0], ast.BinOp) or not isinstance(allocs[0].args[0].op, ast.Add):
        raise AnalysisError("_save_value: allocation `chr(MAGIC_FIRST + idx)` not recognised")
    a0 = allocs[0].args[0]
    idx = unparse(a0.right if unparse(a0.left) == "MAGIC_FIRST" else a0.left)
    idx_defs = [a.value for a in walk_no_nested(fn) if isinstance(a, ast.Assign) and unparse(a.targets[0]) == idx]
    aliases = {idx} | {unparse(v) for v in idx_defs}
    M = 1000

    def val(e, i):
        if unparse(e) in aliases:
            return i
        if isinstance(e, ast.Name) and e.id == "MAX_MAGICS":
            return M
        if isinstance(e, ast.Constant) and isinstance(e.value, int):
            return e.value
        if isinstance(e, ast.BinOp) and isinstance(e.op, (ast.Add, ast.Sub)):
            l, r = val(e.left, i), val(e.right, i)
            return None if l is None or r is None else (l + r if isinstance(e.op, ast.Add) else l - r)
        return None

    import operator
    ops = {ast.Lt: operator.lt, ast.LtE: operator.le, ast.Eq: operator.eq, ast.Gt: operator.gt, ast.GtE: operator.ge, ast.NotEq: operator.ne}

    def truth(t, i):
        if isinstance(t, ast.UnaryOp) and isinstance(t.op, ast.Not):
            v = truth(t.operand, i)
            return None if v is None else not v
        if isinstance(t, ast.Compare) and len(t.ops) == 1 and type(t.ops[0]) in ops:
            l, r = val(t.left, i), val(t.comparators[0], i)
            return None if l is None or r is None else ops[type(t.ops[0])](l, r)
        return None

    guards = [n for n in fn.body if isinstance(n, ast.If) and n.lineno < allocs[0].lineno and "MAX_MAGICS" in unparse(n.test)
              and n.body and isinstance(n.body[-1], (ast.Return, ast.Raise))]
    if not guards and any(isinstance(n, ast.Name) and n.id == "MAX_MAGICS" for n in ast.walk(fn)):
        raise AnalysisError("_save_value: MAX_MAGICS is consulted, but not by a top-level `if ...: return` before the allocation (inconclusive)")
    if not guards:
        rr.bad(Finding("C01.R20", "src/wikitextprocessor/core.py", dotted, unparse(allocs[0]),
                       "no exit for a full placeholder table precedes the allocation", allocs[0].lineno))
        return rr
    tt = [truth(guards[0].test, i) for i in (M - 1, M, M + 1)]
    if None in tt:
        raise AnalysisError("_save_value: limit test `{}` could not be folded (inconclusive)".format(unparse(guards[0].test)[:60]))
    if tt[1] and tt[2]:
        rr.ok(dotted, "exit under `{}` covers every index >= MAX_MAGICS".format(unparse(guards[0].test)))
    else:
        rr.bad(Finding("C01.R20", "src/wikitextprocessor/core.py", dotted, "exit iff " + unparse(guards[0].test),
                       "with the table exactly full (index MAX_MAGICS) the exit is not taken and chr(MAGIC_FIRST + MAX_MAGICS) = MAGIC_LAST + 1 is "
                       "allocated: a character outside the range the tokenizer, the parser and _finalize_expand recognise, left raw in the tree",
                       guards[0].lineno))
    return rr


def run(ctx) -> list:
    return [rule_r18(ctx), rule_r19(ctx), rule_r1(ctx), rule_r2(ctx), rule_r3(ctx), rule_r4(ctx), rule_r5(ctx), rule_r6(ctx), rule_r7(ctx), rule_r8(ctx),
            rule_r9(ctx), rule_r10(ctx), rule_r11(ctx), rule_r12(ctx), rule_r13(ctx), rule_r14(ctx), rule_r15(ctx), rule_r16(ctx), rule_r17(ctx), rule_r20(ctx)]
