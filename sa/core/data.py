"""E8 data loaders: shipped namespaces.json / localization.json of every language."""

from __future__ import annotations

import json
import os

from .report import AnalysisError


class DataFiles:
    def __init__(self, index):
        self.dir = os.path.join(index.pkgdir, "data")
        if not os.path.isdir(self.dir):
            raise AnalysisError("data directory vanished: " + self.dir)
        self.namespaces: dict = {}
        self.localization: dict = {}
        for lang in sorted(os.listdir(self.dir)):
            d = os.path.join(self.dir, lang)
            if not os.path.isdir(d):
                continue
            p = os.path.join(d, "namespaces.json")
            if os.path.exists(p):
                with open(p, encoding="utf-8") as f:
                    self.namespaces[lang] = json.load(f)
            p = os.path.join(d, "localization.json")
            if os.path.exists(p):
                with open(p, encoding="utf-8") as f:
                    self.localization[lang] = json.load(f)
        if len(self.namespaces) < 50:
            raise AnalysisError("only {} namespaces.json files found".format(len(self.namespaces)))

    def langs_missing_namespace_key(self, key: str) -> list:
        return [lang for lang, d in self.namespaces.items() if key not in d]

    def langs_missing_entry_field(self, field: str) -> list:
        out = []
        for lang, d in self.namespaces.items():
            if any(field not in e for e in d.values()):
                out.append(lang)
        return out

    def langs_missing_localization_key(self, key: str) -> list:
        return [lang for lang, d in self.localization.items() if key not in d]
