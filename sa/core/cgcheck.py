"""Thorough-tier cross-check of the name-resolved call graph (E3) against mypy.

The reachability rules (worker path, expansion closure, stack-neutral callees,
per-page effects) are only as sound as the call graph they walk.  E3 resolves
calls by name; here the same package is type-checked by mypy (library API, the
repository's own dev dependency) and every call whose callee mypy resolves *by
type* to a function or method defined in the package must be an edge of E3 too.

A missing edge is a defect of the analysis, not of the repository: it is
reported as ANALYSIS-ERROR (exit 2), never as a VIOLATION.
"""

from __future__ import annotations

import os
import time

from .report import AnalysisError, RuleResult


def _mypy_edges(index) -> tuple:
    try:
        from mypy import build as mbuild
        from mypy import nodes as N
        from mypy.find_sources import create_source_list
        from mypy.options import Options
    except ImportError as e:
        raise AnalysisError("mypy is not importable in this interpreter: {}".format(e))
    opts = Options()
    opts.incremental = False
    opts.cache_dir = os.devnull
    opts.preserve_asts = True
    opts.export_types = True
    opts.ignore_missing_imports = True
    opts.follow_imports = "silent"
    opts.mypy_path = [os.path.join(index.root, "typestubs")]
    cwd = os.getcwd()
    try:
        os.chdir(index.root)
        res = mbuild.build(create_source_list([index.pkgdir], opts), opts)
    except Exception as e:  # noqa: BLE001
        raise AnalysisError("mypy build failed: {}".format(e))
    finally:
        os.chdir(cwd)
    edges: dict = {}
    n_calls = 0
    n_typed = 0

    def walk(node, owner, seen):
        nonlocal n_calls, n_typed
        if id(node) in seen:
            return
        seen.add(id(node))
        if isinstance(node, N.FuncDef):
            for st in node.body.body:
                walk(st, owner + [node.name], seen)
            return
        if isinstance(node, N.Decorator):
            walk(node.func, owner, seen)
            return
        if isinstance(node, N.ClassDef):
            for st in node.defs.body:
                walk(st, owner + [node.name], seen)
            return
        if isinstance(node, N.CallExpr):
            n_calls += 1
            c = node.callee
            fn = None
            if isinstance(c, N.MemberExpr):
                t = res.types.get(c.expr)
                tn = getattr(getattr(t, "type", None), "fullname", None)
                if tn:
                    # method may be inherited: find the defining class
                    info = getattr(t, "type", None)
                    defining = tn
                    for base in getattr(info, "mro", []) or []:
                        if c.name in base.names:
                            defining = base.fullname
                            break
                    fn = defining + "." + c.name
                elif isinstance(c.expr, N.NameExpr) and isinstance(c.expr.node, N.MypyFile):
                    fn = c.expr.node.fullname + "." + c.name
            elif isinstance(c, N.NameExpr):
                fn = c.fullname
            if fn:
                n_typed += 1
                edges.setdefault(".".join(owner), set()).add(fn)
        for name in dir(type(node)):
            if name.startswith("_"):
                continue
            try:
                v = getattr(node, name)
            except Exception:  # noqa: BLE001
                continue
            if isinstance(v, N.Node):
                walk(v, owner, seen)
            elif isinstance(v, (list, tuple)):
                for x in v:
                    if isinstance(x, N.Node):
                        walk(x, owner, seen)
                    elif isinstance(x, (list, tuple)):
                        for y in x:
                            if isinstance(y, N.Node):
                                walk(y, owner, seen)

    for modname, f in res.files.items():
        if not modname.startswith("wikitextprocessor."):
            continue
        short = modname.split(".", 1)[1]
        seen: set = set()
        for st in f.defs:
            walk(st, [short], seen)
    return edges, n_calls, n_typed


def crosscheck(ctx, cg, rule_id: str) -> RuleResult:
    t0 = time.time()
    rr = RuleResult(rule_id, "every in-package callee mypy resolves by type is an edge of the name-resolved call graph (thorough tier)",
                    min_instances=150)
    medges, n_calls, n_typed = _mypy_edges(ctx.index)
    allf = {d for d, _, _ in ctx.index.all_functions()}
    missing = []
    for caller, cs in sorted(medges.items()):
        if caller not in allf:
            continue
        for c in sorted(cs):
            if not c.startswith("wikitextprocessor."):
                continue
            d = c.split(".", 1)[1]
            if d not in allf:
                continue
            if d in cg.edges.get(caller, set()):
                rr.ok(caller, "-> " + d)
            else:
                missing.append((caller, d))
    rr.instances["mypy_call_expressions"] = n_calls
    rr.instances["mypy_typed_callees"] = n_typed
    rr.instances["wall_seconds"] = round(time.time() - t0, 1)
    if missing:
        raise AnalysisError("{}: the call graph lacks {} type-resolved edge(s), e.g. {}".format(
            rule_id, len(missing), "; ".join("{} -> {}".format(a, b) for a, b in missing[:5])))
    return rr
