"""Guard-fact walker: which facts established by enclosing/dominating tests hold
at every expression of a function.

Facts come from `if`/`elif` tests, conditional expressions, earlier operands of
`and`/`or`, comprehension filters, early exits (`if T: return ...` makes not-T
hold afterwards) and `while T: ...` loops without `break` (not-T holds after).
A fact about a variable is dropped when the variable is reassigned.

The client supplies  atom_facts(test) -> (facts_if_true, facts_if_false)  for
atomic tests; and/or/not are composed here.  visit(node, facts, handlers) is
called for every expression node; `handlers` is the list of exception-class
names caught by enclosing try statements (innermost last).
"""

from __future__ import annotations

import ast
from typing import Callable

EXITS = (ast.Return, ast.Continue, ast.Break, ast.Raise)


def default_atom_facts(t: ast.AST) -> tuple:
    """Facts used by several properties:
      ("minlen", name, k)       len(name) >= k
      ("maxlen", name, k)       len(name) <= k
      ("isdecimal", text) / ("isdigit", text)
      ("in", key_text, container_text)
      ("truthy", text)
    """
    T, F = set(), set()
    u = ast.unparse
    if isinstance(t, ast.Name):
        T.add(("minlen", t.id, 1))
        T.add(("truthy", t.id))
        return T, F
    if isinstance(t, (ast.Attribute, ast.Subscript)):
        T.add(("truthy", u(t)))
        return T, F
    if isinstance(t, ast.Call) and isinstance(t.func, ast.Attribute) and not t.args:
        if t.func.attr in ("isdecimal", "isdigit", "isnumeric"):
            T.add((t.func.attr, u(t.func.value)))
            return T, F
    if isinstance(t, ast.Compare) and len(t.ops) == 1:
        op, l, r = t.ops[0], t.left, t.comparators[0]

        def len_of(e):
            if isinstance(e, ast.Call) and isinstance(e.func, ast.Name) and e.func.id == "len" and len(e.args) == 1:
                return u(e.args[0])
            return None

        def const(e):
            return e.value if isinstance(e, ast.Constant) and isinstance(e.value, int) and not isinstance(e.value, bool) else None

        ln, k = len_of(l), const(r)
        if ln is not None and k is not None:
            if isinstance(op, ast.GtE):
                T.add(("minlen", ln, k))
                F.add(("maxlen", ln, k - 1))
            elif isinstance(op, ast.Gt):
                T.add(("minlen", ln, k + 1))
                F.add(("maxlen", ln, k))
            elif isinstance(op, ast.Lt):
                F.add(("minlen", ln, k))
                T.add(("maxlen", ln, k - 1))
            elif isinstance(op, ast.LtE):
                F.add(("minlen", ln, k + 1))
                T.add(("maxlen", ln, k))
            elif isinstance(op, ast.Eq):
                T.add(("minlen", ln, k))
                if k == 0:
                    F.add(("minlen", ln, 1))
            elif isinstance(op, ast.NotEq) and k == 0:
                T.add(("minlen", ln, 1))
            elif isinstance(op, ast.NotEq):
                F.add(("minlen", ln, k))
            return T, F
        ln, k = len_of(r), const(l)
        if ln is not None and k is not None:
            if isinstance(op, ast.LtE):
                T.add(("minlen", ln, k))
            elif isinstance(op, ast.Lt):
                T.add(("minlen", ln, k + 1))
            elif isinstance(op, ast.Gt):
                F.add(("minlen", ln, k))
                T.add(("maxlen", ln, k - 1))
            elif isinstance(op, ast.GtE):
                F.add(("minlen", ln, k + 1))
                T.add(("maxlen", ln, k))
            return T, F
        if isinstance(op, ast.In):
            T.add(("in", u(l), u(r)))
        elif isinstance(op, ast.NotIn):
            F.add(("in", u(l), u(r)))
        elif isinstance(op, ast.IsNot) and isinstance(r, ast.Constant) and r.value is None:
            T.add(("notnone", u(l)))
        elif isinstance(op, ast.Is) and isinstance(r, ast.Constant) and r.value is None:
            F.add(("notnone", u(l)))
    return T, F

INT_MAX_STR_DIGITS = 4300   # CPython >= 3.11: int("9" * 4301) raises ValueError


def bounded_digits(facts, et: str) -> bool:
    return any(f[0] == "maxlen" and f[1] == et and f[2] <= INT_MAX_STR_DIGITS for f in facts if len(f) == 3)


class GuardWalker:
    def __init__(self, visit: Callable, atom_facts: Callable = default_atom_facts):
        self.visit = visit
        self.atom_facts = atom_facts
        self.def_stack: list = []  # names of the nested defs being walked

    def owner(self, base: str) -> str:
        """qualified name of the innermost function being walked"""
        return ".".join([base] + self.def_stack)

    # ---- tests ----
    def facts_of(self, t: ast.AST) -> tuple:
        if isinstance(t, ast.UnaryOp) and isinstance(t.op, ast.Not):
            a, b = self.facts_of(t.operand)
            return b, a
        if isinstance(t, ast.BoolOp):
            Ts, Fs = zip(*[self.facts_of(v) for v in t.values])
            if isinstance(t.op, ast.And):
                return set().union(*Ts), set()
            return set(), set().union(*Fs)
        if isinstance(t, ast.NamedExpr):
            return self.facts_of(t.value)
        return self.atom_facts(t)

    # ---- expressions ----
    def expr(self, e, facts: frozenset, handlers: tuple) -> None:
        if e is None:
            return
        if isinstance(e, ast.IfExp):
            self.expr(e.test, facts, handlers)
            t, f = self.facts_of(e.test)
            self.visit(e, facts, handlers)
            self.expr(e.body, facts | t, handlers)
            self.expr(e.orelse, facts | f, handlers)
            return
        if isinstance(e, ast.BoolOp):
            self.visit(e, facts, handlers)
            cur = facts
            for v in e.values:
                self.expr(v, cur, handlers)
                t, f = self.facts_of(v)
                cur = cur | (t if isinstance(e.op, ast.And) else f)
            return
        if isinstance(e, (ast.ListComp, ast.SetComp, ast.GeneratorExp, ast.DictComp)):
            self.visit(e, facts, handlers)
            cur = facts
            for g in e.generators:
                self.expr(g.iter, cur, handlers)
                for c in g.ifs:
                    self.expr(c, cur, handlers)
                    cur = cur | self.facts_of(c)[0]
            if isinstance(e, ast.DictComp):
                self.expr(e.key, cur, handlers)
                self.expr(e.value, cur, handlers)
            else:
                self.expr(e.elt, cur, handlers)
            return
        if isinstance(e, ast.Lambda):
            self.visit(e, facts, handlers)
            self.expr(e.body, facts, ())  # runs later: enclosing try does not protect it
            return
        self.visit(e, facts, handlers)
        for ch in ast.iter_child_nodes(e):
            if isinstance(ch, ast.expr):
                self.expr(ch, facts, handlers)
            elif isinstance(ch, (ast.keyword,)):
                self.expr(ch.value, facts, handlers)
            elif isinstance(ch, ast.comprehension):
                pass

    # ---- statements ----
    @staticmethod
    def _kill(facts: frozenset, names: set) -> frozenset:
        if not names:
            return facts
        out = set()
        for f in facts:
            txt = " ".join(str(x) for x in f[1:])
            toks = set(_idents(txt))
            if toks & names:
                continue
            out.add(f)
        return frozenset(out)

    def block(self, stmts: list, facts: frozenset, handlers: tuple) -> frozenset:
        for st in stmts:
            facts = self.stmt(st, facts, handlers)
        return facts

    @staticmethod
    def _always_exits(stmts: list) -> bool:
        if not stmts:
            return False
        last = stmts[-1]
        if isinstance(last, EXITS):
            return True
        if isinstance(last, ast.If) and last.orelse:
            return GuardWalker._always_exits(last.body) and GuardWalker._always_exits(last.orelse)
        return False

    def stmt(self, st: ast.stmt, facts: frozenset, handlers: tuple) -> frozenset:
        if isinstance(st, (ast.FunctionDef, ast.AsyncFunctionDef)):
            # nested function: analysed with no inherited facts (it runs later)
            for d in st.args.defaults:
                self.expr(d, facts, handlers)
            self.def_stack.append(st.name)
            try:
                self.block(st.body, frozenset(), ())
            finally:
                self.def_stack.pop()
            return facts
        if isinstance(st, ast.ClassDef):
            return facts
        if isinstance(st, ast.If):
            self.expr(st.test, facts, handlers)
            t, f = self.facts_of(st.test)
            fb = self.block(st.body, facts | t, handlers)
            fo = self.block(st.orelse, facts | f, handlers)
            be, oe = self._always_exits(st.body), self._always_exits(st.orelse)
            else_path = fo if st.orelse else (facts | f)
            if be and oe:
                return frozenset(facts)
            if be:
                return frozenset(else_path)
            if oe:
                return frozenset(fb)
            return frozenset(fb & else_path)
        if isinstance(st, ast.While):
            self.expr(st.test, facts, handlers)
            t, f = self.facts_of(st.test)
            assigned = _assigned_names(st)
            inner = self._kill(facts, assigned)
            self.block(st.body, inner | t, handlers)
            self.block(st.orelse, inner, handlers)
            has_break = any(isinstance(n, ast.Break) for n in ast.walk(st))
            after = self._kill(facts, assigned - _names_in_facts(f))
            return after | f if not has_break else after
        if isinstance(st, (ast.For, ast.AsyncFor)):
            self.expr(st.iter, facts, handlers)
            assigned = _assigned_names(st)
            inner = self._kill(facts, assigned)
            # `for k in D:` / `for k in D.keys():` -- k is a key of D inside the body
            it = st.iter
            if isinstance(it, ast.Call) and isinstance(it.func, ast.Attribute) and it.func.attr == "keys" and not it.args:
                it = it.func.value
            if isinstance(st.target, ast.Name) and isinstance(it, (ast.Name, ast.Attribute)):
                inner = inner | {("in", st.target.id, ast.unparse(it))}
            self.block(st.body, inner, handlers)
            self.block(st.orelse, inner, handlers)
            return inner
        if isinstance(st, ast.Try):
            caught = []
            for h in st.handlers:
                if h.type is None:
                    caught.append("BaseException")
                elif isinstance(h.type, ast.Tuple):
                    caught.extend(ast.unparse(x) for x in h.type.elts)
                else:
                    caught.append(ast.unparse(h.type))
            fb = self.block(st.body, facts, handlers + (tuple(caught),))
            assigned = _assigned_names(st)
            base = self._kill(facts, assigned)
            for h in st.handlers:
                self.block(h.body, base, handlers)
            self.block(st.orelse, fb, handlers)
            self.block(st.finalbody, base, handlers)
            return base
        if isinstance(st, (ast.With, ast.AsyncWith)):
            for it in st.items:
                self.expr(it.context_expr, facts, handlers)
            return self.block(st.body, facts, handlers)
        # simple statements
        for ch in ast.iter_child_nodes(st):
            if isinstance(ch, ast.expr):
                self.expr(ch, facts, handlers)
        return self._kill(facts, _assigned_names(st))

    def function(self, fn: ast.FunctionDef, facts: frozenset = frozenset()) -> None:
        self.block(fn.body, facts, ())


def _idents(s: str):
    import re

    return re.findall(r"[A-Za-z_][A-Za-z_0-9]*", s)


def _names_in_facts(fs) -> set:
    out = set()
    for f in fs:
        out |= set(_idents(" ".join(str(x) for x in f[1:])))
    return out


def _assigned_names(node: ast.AST) -> set:
    out = set()
    for n in ast.walk(node):
        tg = []
        if isinstance(n, ast.Assign):
            tg = n.targets
        elif isinstance(n, (ast.AugAssign, ast.AnnAssign)):
            tg = [n.target]
        elif isinstance(n, (ast.For, ast.AsyncFor)):
            tg = [n.target]
        elif isinstance(n, ast.NamedExpr):
            tg = [n.target]
        elif isinstance(n, ast.Call) and isinstance(n.func, ast.Attribute) and n.func.attr in ("pop", "clear", "remove") \
                and isinstance(n.func.value, ast.Name):
            out.add(n.func.value.id)  # shrinking a list invalidates length facts
        for t in tg:
            for x in ast.walk(t):
                if isinstance(x, ast.Name) and not isinstance(getattr(x, "ctx", None), ast.Load):
                    out.add(x.id)
                elif isinstance(x, ast.Name) and isinstance(t, ast.Name):
                    out.add(x.id)
    return out


EXC_PARENTS = {
    "ZeroDivisionError": "ArithmeticError", "OverflowError": "ArithmeticError", "FloatingPointError": "ArithmeticError",
    "ArithmeticError": "Exception", "ValueError": "Exception", "TypeError": "Exception", "KeyError": "LookupError",
    "IndexError": "LookupError", "LookupError": "Exception", "UnicodeError": "ValueError",
    "UnicodeDecodeError": "UnicodeError", "AttributeError": "Exception", "RecursionError": "RuntimeError",
    "RuntimeError": "Exception", "MemoryError": "Exception", "Exception": "BaseException",
    "sqlite3.OperationalError": "sqlite3.DatabaseError", "sqlite3.DatabaseError": "sqlite3.Error", "sqlite3.Error": "Exception",
    "sqlite3.ProgrammingError": "sqlite3.DatabaseError",
}


def caught_by(exc: str, handlers: tuple) -> bool:
    """Is exception class `exc` caught by one of the enclosing try statements?"""
    chain = [exc]
    while chain[-1] in EXC_PARENTS:
        chain.append(EXC_PARENTS[chain[-1]])
    for level in handlers:
        for c in level:
            if c in chain:
                return True
    return False
