"""Canonicalisation of behaviour-preserving restructurings (runs after alpha.py).

The rules look at the shape of particular functions.  The most common harmless
edits change that shape without changing behaviour: a block is extracted into a
helper function, an inline regex becomes a precompiled module constant, a literal
tuple of node kinds gets a name, an attribute chain is bound to a local once.
Instead of teaching every rule every such variation, the parsed module is
rewritten towards the shape of the pinned tree before any rule sees it:

* P1  a *new* module-level `NAME = re.compile(PATTERN[, FLAGS])` is folded back
      into its uses: `NAME.sub(r, s)` -> `re.sub(PATTERN, r, s[, flags=FLAGS])`,
      `re.match(NAME, s)` -> `re.match(PATTERN, s)`;
* P2  a *new* module-level constant bound to a literal (tuple/set/dict/str/number,
      enum members) is replaced by the literal where it is read;
* P3  calls of a *new* helper function (module function, method or closure that
      does not exist on the pinned tree) are inlined at their call sites when the
      helper is small and structured (no recursion, no generator, no decorator,
      returns only in tail position of if/else chains), with parameters replaced
      by the (simple) argument expressions; fully inlined helpers are dropped;
* P0  `x: T = v` inside a function body is rewritten to `x = v`; `len("literal")` is folded;
* P4  a *new* local assigned exactly once, at the top level of the function, from
      a side-effect-free attribute chain (`db_path = self.db_path`) is replaced
      by that chain.

"New" is relative to sa/reference_names.json (functions, module constants and
locals of the pinned tree; regenerate with tools/gen_reference_locals.py).  Every
pass is a faithful source-to-source transformation; when a precondition is not
met the construct is left alone (the rule then sees the code as written and may be
inconclusive).  The number of rewrites is recorded in the evidence.
"""

from __future__ import annotations

import ast
import copy
import json
import os

REF_PATH = os.path.join(os.path.dirname(os.path.dirname(os.path.abspath(__file__))), "reference_names.json")
_REF = None


def reference() -> dict:
    global _REF
    if _REF is None:
        try:
            with open(REF_PATH, encoding="utf-8") as f:
                _REF = json.load(f)
        except OSError:
            _REF = {}
    return _REF


class Unsupported(Exception):
    pass


def _is_docstring(st) -> bool:
    return isinstance(st, ast.Expr) and isinstance(st.value, ast.Constant) and isinstance(st.value.value, str)


def _simple(e) -> bool:
    """argument expressions that can be substituted for a parameter without duplicating effects"""
    if isinstance(e, (ast.Name, ast.Constant)):
        return True
    if isinstance(e, ast.Attribute):
        return _simple(e.value)
    if isinstance(e, ast.Subscript):
        return _simple(e.value) and isinstance(e.slice, ast.Constant)
    if isinstance(e, ast.UnaryOp) and isinstance(e.op, (ast.USub, ast.Not)):
        return _simple(e.operand)
    return False


def _pure_expr(e) -> bool:
    """side-effect-free expressions whose value depends only on the names they mention"""
    if isinstance(e, (ast.Name, ast.Constant)):
        return True
    if isinstance(e, ast.Attribute):
        return _pure_expr(e.value)
    if isinstance(e, ast.Subscript):
        return _pure_expr(e.value) and _pure_expr(e.slice)
    if isinstance(e, ast.Slice):
        return all(x is None or _pure_expr(x) for x in (e.lower, e.upper, e.step))
    if isinstance(e, ast.Compare):
        return _pure_expr(e.left) and all(_pure_expr(c) for c in e.comparators)
    if isinstance(e, ast.BoolOp):
        return all(_pure_expr(v) for v in e.values)
    if isinstance(e, ast.UnaryOp):
        return _pure_expr(e.operand)
    if isinstance(e, ast.BinOp):
        return _pure_expr(e.left) and _pure_expr(e.right)
    if isinstance(e, (ast.Tuple, ast.Dict)):
        return all(_pure_expr(x) for x in (e.elts if isinstance(e, ast.Tuple) else [k for k in e.keys if k is not None] + e.values))
    if isinstance(e, ast.Call) and isinstance(e.func, ast.Attribute) and e.func.attr == "get" and not e.keywords:
        return _pure_expr(e.func.value) and all(_pure_expr(a) for a in e.args)
    if isinstance(e, ast.Call) and isinstance(e.func, ast.Name) and e.func.id in ("len", "str", "bool") and len(e.args) == 1 and not e.keywords:
        return _pure_expr(e.args[0])
    return False


def _pure_literal(v) -> bool:
    if isinstance(v, ast.Constant):
        return True
    if isinstance(v, (ast.Tuple, ast.List, ast.Set)):
        return all(_pure_literal(x) for x in v.elts)
    if isinstance(v, ast.Dict):
        return all(k is not None and _pure_literal(k) for k in v.keys) and all(_pure_literal(x) for x in v.values)
    if isinstance(v, ast.Attribute):  # NodeKind.TABLE
        return isinstance(v.value, ast.Name)
    if isinstance(v, ast.BinOp) and isinstance(v.op, (ast.BitOr, ast.Add)):
        return _pure_literal(v.left) and _pure_literal(v.right)
    if isinstance(v, ast.Call) and isinstance(v.func, ast.Name) and v.func.id in ("frozenset", "set", "tuple") and len(v.args) == 1:
        return _pure_literal(v.args[0])
    return False


class _Subst(ast.NodeTransformer):
    def __init__(self, mapping):
        self.mapping = mapping

    def visit_Name(self, node):
        if node.id in self.mapping and isinstance(node.ctx, ast.Load):
            return copy.deepcopy(self.mapping[node.id])
        if node.id in self.mapping and isinstance(node.ctx, ast.Store) and isinstance(self.mapping[node.id], ast.Name):
            node.id = self.mapping[node.id].id
        return node

    def visit_FunctionDef(self, node):  # do not descend into nested defs that rebind the names
        params = {a.arg for a in node.args.args + node.args.kwonlyargs}
        inner = {k: v for k, v in self.mapping.items() if k not in params}
        if inner != self.mapping:
            _Subst(inner).generic_visit(node)
            return node
        self.generic_visit(node)
        return node

    visit_Lambda = visit_FunctionDef


def _own_nodes(fn):
    stack = list(ast.iter_child_nodes(fn))
    while stack:
        n = stack.pop()
        yield n
        if isinstance(n, (ast.FunctionDef, ast.AsyncFunctionDef, ast.ClassDef, ast.Lambda)):
            continue
        stack.extend(ast.iter_child_nodes(n))


def _returns_in_loops_or_try(fn) -> bool:
    def rec(n, inside):
        for ch in ast.iter_child_nodes(n):
            if isinstance(ch, (ast.FunctionDef, ast.AsyncFunctionDef, ast.ClassDef, ast.Lambda)):
                continue
            if isinstance(ch, ast.Return) and inside:
                return True
            if rec(ch, inside or isinstance(ch, (ast.For, ast.While, ast.Try, ast.With, ast.AsyncFor, ast.AsyncWith))):
                return True
        return False

    return rec(fn, False)


def _has_return(st) -> bool:
    return any(isinstance(n, ast.Return) for n in _walk_no_defs(st))


def _walk_no_defs(st):
    todo = [st]
    while todo:
        n = todo.pop()
        yield n
        for c in ast.iter_child_nodes(n):
            if not isinstance(c, (ast.FunctionDef, ast.AsyncFunctionDef, ast.Lambda, ast.ClassDef)):
                todo.append(c)


def _lower(stmts: list, target):
    """eliminate returns: (statements, may fall through).  `target` is an assignment target for returned
    values (None: values are discarded).  Whatever follows an `if` that contains a return is moved into its
    branches (copied when both can fall through), so that a path that has returned executes nothing more."""
    out = []
    for i, st in enumerate(stmts):
        if isinstance(st, ast.Return):
            if st.value is not None and target is not None:
                out.append(ast.copy_location(ast.Assign(targets=[copy.deepcopy(target)], value=st.value), st))
            elif st.value is not None and not _simple(st.value) and not isinstance(st.value, ast.Constant):
                out.append(ast.copy_location(ast.Expr(value=st.value), st))
            elif target is not None and st.value is None:
                out.append(ast.copy_location(ast.Assign(targets=[copy.deepcopy(target)], value=ast.Constant(value=None)), st))
            return out, False
        if isinstance(st, ast.If) and _has_return(st):
            rest = stmts[i + 1:]
            b, bf = _lower(list(st.body) + rest, target)
            o, of = _lower(list(st.orelse) + copy.deepcopy(rest), target)
            new = copy.copy(st)
            new.body, new.orelse = b or [ast.Pass()], o
            out.append(new)
            return out, (bf or of)
        out.append(st)
    return out, True


def _renumber(fn) -> None:
    """After inlining, statements spliced in from a helper all carry the line of the call.  The rules order
    statements by line number, so give every statement of the function a fresh line in source order
    (reported positions inside such a function are then approximate; findings are keyed by construct)."""
    counter = [getattr(fn, "lineno", 1)]

    def stmt(st):
        counter[0] += 1
        line = counter[0]
        for n in ast.walk(st) if not isinstance(st, (ast.If, ast.For, ast.While, ast.With, ast.Try, ast.FunctionDef, ast.AsyncFunctionDef, ast.ClassDef)) else [st]:
            if hasattr(n, "lineno"):
                n.lineno = line
                n.end_lineno = line
        if isinstance(st, (ast.If, ast.While)):
            for n in ast.walk(st.test):
                if hasattr(n, "lineno"):
                    n.lineno = n.end_lineno = line
        elif isinstance(st, (ast.For, ast.AsyncFor)):
            for part in (st.target, st.iter):
                for n in ast.walk(part):
                    if hasattr(n, "lineno"):
                        n.lineno = n.end_lineno = line
        elif isinstance(st, (ast.With, ast.AsyncWith)):
            for it in st.items:
                for n in ast.walk(it.context_expr):
                    if hasattr(n, "lineno"):
                        n.lineno = n.end_lineno = line
                if it.optional_vars is not None:
                    for n in ast.walk(it.optional_vars):
                        if hasattr(n, "lineno"):
                            n.lineno = n.end_lineno = line
        elif isinstance(st, (ast.FunctionDef, ast.AsyncFunctionDef)):
            for n in ast.walk(st.args):
                if hasattr(n, "lineno"):
                    n.lineno = n.end_lineno = line
            for d in st.decorator_list:
                for n in ast.walk(d):
                    if hasattr(n, "lineno"):
                        n.lineno = n.end_lineno = line
        for fld in ("body", "orelse", "finalbody"):
            sub = getattr(st, fld, None)
            if isinstance(sub, list):
                for x in sub:
                    if isinstance(x, ast.stmt):
                        stmt(x)
        if isinstance(st, ast.Try):
            for h in st.handlers:
                counter[0] += 1
                h.lineno = h.end_lineno = counter[0]
                if h.type is not None:
                    for n in ast.walk(h.type):
                        if hasattr(n, "lineno"):
                            n.lineno = n.end_lineno = counter[0]
                for x in h.body:
                    stmt(x)
        if hasattr(st, "end_lineno"):
            st.end_lineno = counter[0]

    for x in fn.body:
        stmt(x)
    fn.end_lineno = counter[0]


class Canon:
    def __init__(self, modname: str, tree: ast.Module, ref: dict):
        self.modname = modname
        self.tree = tree
        r = ref.get(modname, {})
        self.ref_funcs = set(r.get("functions", []))
        self.ref_consts = set(r.get("constants", []))
        self.ref_locals = r.get("locals", {})
        self.have_ref = bool(r)
        self.stats = {"regex_constants": 0, "literal_constants": 0, "inlined_calls": 0, "dropped_helpers": 0, "locals_propagated": 0}

    # ---- P1/P2 --------------------------------------------------------------
    def new_constants(self):
        regex, lit = {}, {}
        for st in self.tree.body:
            tg = v = None
            if isinstance(st, ast.Assign) and len(st.targets) == 1 and isinstance(st.targets[0], ast.Name):
                tg, v = st.targets[0].id, st.value
            elif isinstance(st, ast.AnnAssign) and isinstance(st.target, ast.Name) and st.value is not None:
                tg, v = st.target.id, st.value
            if tg is None or tg in self.ref_consts:
                continue
            if isinstance(v, ast.Call) and ast.unparse(v.func) == "re.compile" and v.args:
                flags = v.args[1] if len(v.args) > 1 else next((k.value for k in v.keywords if k.arg == "flags"), None)
                regex[tg] = (v.args[0], flags)
            elif _pure_literal(v):
                lit[tg] = v
        # a constant rebound anywhere is not a constant
        for n in ast.walk(self.tree):
            if isinstance(n, ast.Name) and isinstance(n.ctx, (ast.Store, ast.Del)):
                cnt = sum(1 for st in self.tree.body for t in (getattr(st, "targets", None) or [getattr(st, "target", None)])
                          if isinstance(t, ast.Name) and t.id == n.id)
                if cnt > 1:
                    regex.pop(n.id, None)
                    lit.pop(n.id, None)
        return regex, lit

    def fold_constants(self):
        regex, lit = self.new_constants()
        if not regex and not lit:
            return
        outer = self

        class T(ast.NodeTransformer):
            def visit_Call(self, node):
                self.generic_visit(node)
                f = node.func
                if isinstance(f, ast.Attribute) and isinstance(f.value, ast.Name) and f.value.id in regex \
                        and f.attr in ("match", "search", "fullmatch", "sub", "subn", "split", "finditer", "findall"):
                    pat, flags = regex[f.value.id]
                    new = ast.Call(func=ast.Attribute(value=ast.Name(id="re", ctx=ast.Load()), attr=f.attr, ctx=ast.Load()),
                                   args=[copy.deepcopy(pat)] + node.args, keywords=list(node.keywords))
                    if flags is not None:
                        new.keywords.append(ast.keyword(arg="flags", value=copy.deepcopy(flags)))
                    outer.stats["regex_constants"] += 1
                    return ast.copy_location(new, node)
                if ast.unparse(f) in ("re.match", "re.search", "re.fullmatch", "re.sub", "re.subn", "re.split", "re.finditer", "re.findall") \
                        and node.args and isinstance(node.args[0], ast.Name) and node.args[0].id in regex:
                    pat, flags = regex[node.args[0].id]
                    node.args[0] = copy.deepcopy(pat)
                    if flags is not None and not any(k.arg == "flags" for k in node.keywords):
                        node.keywords.append(ast.keyword(arg="flags", value=copy.deepcopy(flags)))
                    outer.stats["regex_constants"] += 1
                return node

            def visit_Name(self, node):
                if isinstance(node.ctx, ast.Load) and node.id in lit:
                    outer.stats["literal_constants"] += 1
                    return ast.copy_location(copy.deepcopy(lit[node.id]), node)
                return node

        for st in self.tree.body:
            if isinstance(st, (ast.FunctionDef, ast.AsyncFunctionDef, ast.ClassDef)):
                T().visit(st)

    # ---- P3 ------------------------------------------------------------------
    def _functions(self):
        """(qualified name, def node, container list, class name or None)"""
        out = []

        def walk(body, prefix, cls):
            for st in body:
                if isinstance(st, (ast.FunctionDef, ast.AsyncFunctionDef)):
                    q = vq(st, prefix)
                    out.append((q, st, body, cls))
                    walk(st.body, q + ".", None)
                elif isinstance(st, ast.ClassDef):
                    walk(st.body, prefix + st.name + ".", st.name)
                elif isinstance(st, (ast.If, ast.Try, ast.With, ast.For, ast.While)):
                    for fld in ("body", "orelse", "finalbody"):
                        walk(getattr(st, fld, []) or [], prefix, cls)

        walk(self.tree.body, "", None)
        return out

    def _helper_ok(self, fn) -> bool:
        static = len(fn.decorator_list) == 1 and isinstance(fn.decorator_list[0], ast.Name) and fn.decorator_list[0].id == "staticmethod"
        if (fn.decorator_list and not static) or isinstance(fn, ast.AsyncFunctionDef):
            return False
        a = fn.args
        if a.vararg or a.kwarg or a.posonlyargs:
            return False
        if any(not isinstance(d, ast.Constant) for d in a.defaults + [d for d in a.kw_defaults if d is not None]):
            return False
        body = [s for s in fn.body if not _is_docstring(s)]
        if not body or len(list(ast.walk(fn))) > 700:
            return False
        for n in _own_nodes(fn):
            if isinstance(n, (ast.Yield, ast.YieldFrom, ast.Await, ast.Global, ast.Nonlocal)):
                return False
            if isinstance(n, ast.Name) and n.id == fn.name:
                return False  # recursive
            if isinstance(n, ast.Attribute) and n.attr == fn.name and isinstance(n.value, ast.Name) and n.value.id in ("self", "ctx", "wtp"):
                return False
        if any(isinstance(n, (ast.FunctionDef, ast.AsyncFunctionDef, ast.ClassDef)) for n in _own_nodes(fn)):
            return False
        if _returns_in_loops_or_try(fn):
            return False
        return True

    _caller_names: set = set()

    def _bind(self, fn, call, is_method, receiver, pre=None):
        """parameter -> argument expression, or None when the call cannot be bound; `pre` (a list) receives the assignments
        `param = argument` that have to run before the inlined body"""
        params = [a.arg for a in fn.args.args]
        params_all = list(params)
        mapping = {}
        if is_method:
            if not params:
                return None
            mapping[params[0]] = receiver
            params = params[1:]
        if len(call.args) > len(params) or any(isinstance(x, ast.Starred) for x in call.args):
            return None
        for p, a in zip(params, call.args):
            mapping[p] = a
        for k in call.keywords:
            if k.arg is None or (k.arg not in params and k.arg not in [x.arg for x in fn.args.kwonlyargs]):
                return None
            mapping[k.arg] = k.value
        # defaults
        defaults = dict(zip([a.arg for a in fn.args.args][len(fn.args.args) - len(fn.args.defaults):], fn.args.defaults))
        for kw, d in zip(fn.args.kwonlyargs, fn.args.kw_defaults):
            if d is not None:
                defaults[kw.arg] = d
        for p in params + [x.arg for x in fn.args.kwonlyargs]:
            if p not in mapping:
                if p in defaults:
                    mapping[p] = defaults[p]
                else:
                    return None
        # a parameter the helper rebinds, or one bound to an argument that is not a plain read, becomes a local that is
        # assigned the argument before the body (arguments are evaluated left to right before the call, so this keeps order);
        # `pre` is None when the caller cannot take statements (expression position)
        stored = {n.id for n in _own_nodes(fn) if isinstance(n, ast.Name) and isinstance(n.ctx, (ast.Store, ast.Del))}
        # (a rebound parameter bound to the caller's variable of the same name needs no local when the call statement assigns
        # that variable anyway and no handler of the caller could observe the intermediate value)
        overwritten = getattr(self, "_target_names", set())
        need_local = [p_ for p_, v in mapping.items()
                      if ((p_ in stored) and not (isinstance(v, ast.Name) and v.id == p_ and p_ in overwritten))
                      or not (_simple(v) or _pure_literal(v))]
        if pre is None:
            return None if need_local else mapping
        order = [p_ for p_ in ([params_all[0]] if is_method and params_all else []) + params + [x.arg for x in fn.args.kwonlyargs] if p_ in need_local]
        for p_ in order:
            v = mapping[p_]
            local = ast.Name(id=p_ + "__h" if p_ in self._caller_names else p_, ctx=ast.Store())
            pre.append(ast.Assign(targets=[local], value=v))
            mapping[p_] = ast.Name(id=local.id, ctx=ast.Load())
        return mapping

    def inline_helpers(self):
        if not self.have_ref:
            return
        for _ in range(3):
            funcs = self._functions()
            helpers = {}
            for q, fn, container, cls in funcs:
                if q in self.ref_funcs or not self._helper_ok(fn):
                    continue
                helpers[q] = (fn, container, cls)
            if not helpers:
                return
            changed = 0
            by_simple_name = {}
            for q, (fn, container, cls) in helpers.items():
                by_simple_name.setdefault(fn.name, []).append((q, fn, cls))
            for q, caller, _c, caller_cls in funcs:
                if q in helpers:
                    continue
                changed += self._inline_into(caller, q, by_simple_name)
            self.stats["inlined_calls"] += changed
            if not changed:
                return
            # drop helpers that are no longer referenced
            for q, (fn, container, cls) in helpers.items():
                refs = 0
                for n in ast.walk(self.tree):
                    if n is fn:
                        continue
                    if isinstance(n, ast.Name) and n.id == fn.name and isinstance(n.ctx, ast.Load):
                        refs += 1
                    if isinstance(n, ast.Attribute) and n.attr == fn.name and isinstance(n.ctx, ast.Load):
                        refs += 1
                # references from inside the helper itself were excluded by _helper_ok
                inner = sum(1 for n in ast.walk(fn) if (isinstance(n, ast.Name) and n.id == fn.name) or (isinstance(n, ast.Attribute) and n.attr == fn.name))
                if refs - inner == 0 and fn in container:
                    container.remove(fn)
                    self.stats["dropped_helpers"] += 1

    def _resolve(self, call, caller_q, by_simple_name):
        """(fn, is_method, receiver) for a call of a new helper, else None"""
        f = call.func
        if isinstance(f, ast.Name) and f.id in by_simple_name:
            cands = by_simple_name[f.id]
            # closures of the caller (or of an enclosing def) first, then module-level functions
            best = None
            for q, fn, cls in cands:
                pre = q.rsplit(".", 1)[0] if "." in q else ""
                if cls is None and (pre == "" or caller_q == pre or caller_q.startswith(pre + ".")):
                    if best is None or len(q) > len(best[0]):
                        best = (q, fn)
            if best:
                return best[1], False, None
        if isinstance(f, ast.Attribute) and isinstance(f.value, ast.Name) and f.value.id in ("self", "ctx", "wtp", "cls") and f.attr in by_simple_name:
            for q, fn, cls in by_simple_name[f.attr]:
                if cls is not None:
                    static = any(isinstance(d, ast.Name) and d.id == "staticmethod" for d in fn.decorator_list)
                    return fn, not static, (None if static else f.value)
        return None

    def _inline_into(self, caller, caller_q, by_simple_name) -> int:
        count = 0
        outer = self
        caller_names = {n.id for n in _own_nodes(caller) if isinstance(n, ast.Name)} | {a.arg for a in caller.args.args}

        def expr_helper(fn):
            # (an `assert` that passes is a no-op; helpers of the form `assert X; return E` are expression helpers)
            body = [s for s in fn.body if not _is_docstring(s) and not isinstance(s, ast.Assert)]
            return body[0].value if len(body) == 1 and isinstance(body[0], ast.Return) and body[0].value is not None else None

        class ExprInliner(ast.NodeTransformer):
            def visit_FunctionDef(self, node):
                return node  # nested defs are callers of their own

            visit_AsyncFunctionDef = visit_FunctionDef
            visit_Lambda = visit_FunctionDef

            def visit_Call(self, node):
                nonlocal count
                self.generic_visit(node)
                r = outer._resolve(node, caller_q, by_simple_name)
                if r is None:
                    return node
                fn, is_m, recv = r
                e = expr_helper(fn)
                if e is None:
                    return node
                m = outer._bind(fn, node, is_m, recv)
                if m is None:
                    return node
                count += 1
                return ast.copy_location(_Subst(m).visit(copy.deepcopy(e)), node)

        def split_tuple_assign(x):
            """`a, b = (x, y)` -> `a = x; b = y` when no later value reads an earlier target"""
            if not (isinstance(x, ast.Assign) and len(x.targets) == 1 and isinstance(x.targets[0], ast.Tuple)
                    and isinstance(x.value, ast.Tuple) and len(x.value.elts) == len(x.targets[0].elts)
                    and all(isinstance(t, ast.Name) for t in x.targets[0].elts)
                    and not any(isinstance(v, ast.Starred) for v in x.value.elts)):
                return [x]
            names = [t.id for t in x.targets[0].elts]
            for i, v in enumerate(x.value.elts):
                if any(isinstance(n, ast.Name) and n.id in names[:i] for n in ast.walk(v)):
                    return [x]
            return [ast.Assign(targets=[ast.Name(id=t, ctx=ast.Store())], value=v) for t, v in zip(names, x.value.elts)]

        def split_all(stmts):
            out = []
            for x in stmts:
                for fld in ("body", "orelse"):
                    if isinstance(x, ast.If):
                        setattr(x, fld, split_all(getattr(x, fld)))
                out.extend(split_tuple_assign(x))
            return out

        def drop_identities(stmts):
            out = []
            for x in stmts:
                if isinstance(x, ast.If):
                    x.body = drop_identities(x.body) or [ast.Pass()]
                    x.orelse = drop_identities(x.orelse)
                if isinstance(x, ast.Assign) and len(x.targets) == 1 \
                        and ast.unparse(x.targets[0]).strip("()") == ast.unparse(x.value).strip("()"):
                    continue
                out.append(x)
            return out

        def rewrite_block(stmts, in_try=False):
            nonlocal count
            out = []
            for st in stmts:
                call = target = None
                mode = None
                if isinstance(st, ast.Expr) and isinstance(st.value, ast.Call):
                    call, mode = st.value, "expr"
                elif isinstance(st, ast.Assign) and len(st.targets) == 1 and isinstance(st.value, ast.Call):
                    call, target, mode = st.value, st.targets[0], "assign"
                elif isinstance(st, ast.AnnAssign) and st.value is not None and isinstance(st.value, ast.Call):
                    call, target, mode = st.value, st.target, "assign"
                elif isinstance(st, ast.Return) and isinstance(st.value, ast.Call):
                    call, mode = st.value, "return"
                done = False
                if call is not None:
                    r = outer._resolve(call, caller_q, by_simple_name)
                    if r is not None and expr_helper(r[0]) is None:
                        fn, is_m, recv = r
                        pre: list = []
                        outer._caller_names = caller_names
                        outer._target_names = set() if in_try or target is None else \
                            {n.id for n in ast.walk(target) if isinstance(n, ast.Name)}
                        m = outer._bind(fn, call, is_m, recv, pre)
                        outer._target_names = set()
                        if m is not None:
                            body = copy.deepcopy([s for s in fn.body if not _is_docstring(s)])
                            # helper locals that would clobber a caller name read later get a suffix
                            locs = {n.id for b in body for n in ast.walk(b) if isinstance(n, ast.Name) and isinstance(n.ctx, ast.Store)} - set(m)
                            later = {n.id for n in _own_nodes(caller) if isinstance(n, ast.Name) and isinstance(n.ctx, ast.Load)
                                     and getattr(n, "lineno", 0) > getattr(st, "end_lineno", st.lineno)}
                            tnames = {n.id for n in ast.walk(target) if isinstance(n, ast.Name)} if target is not None else set()
                            ren = {x: ast.Name(id=x + "__h", ctx=ast.Load()) for x in locs if x in caller_names and x in later and x not in tnames}
                            full = dict(m)
                            full.update(ren)
                            body = [_Subst(full).visit(b) for b in body]
                            try:
                                if mode == "return":
                                    new = body
                                    if not (new and isinstance(new[-1], ast.Return)) and _lower(copy.deepcopy(new), None)[1]:
                                        new = new + [ast.Return(value=ast.Constant(value=None))]
                                else:
                                    if mode == "assign" and not (body and isinstance(body[-1], ast.Return)):
                                        body = body + [ast.Return(value=None)]  # falling off the end returns None
                                    new, _falls = _lower(body, target if mode == "assign" else None)
                            except Unsupported:
                                new = None
                            if new is not None:
                                # `a, b = (a, b)` left over from returning locals under their own names
                                new = drop_identities(split_all(new))
                                new = pre + new
                                for x in new:
                                    ast.copy_location(x, st)
                                    for sub in ast.walk(x):
                                        if not hasattr(sub, "lineno"):
                                            ast.copy_location(sub, st)
                                out.extend(new or [ast.copy_location(ast.Pass(), st)])
                                count += 1
                                done = True
                if done:
                    continue
                for fld in ("body", "orelse", "finalbody"):
                    if hasattr(st, fld) and isinstance(getattr(st, fld), list) and not isinstance(st, (ast.FunctionDef, ast.AsyncFunctionDef, ast.ClassDef)):
                        getattr(st, fld)[:] = rewrite_block(getattr(st, fld), in_try or isinstance(st, ast.Try))
                if isinstance(st, ast.Try):
                    for h in st.handlers:
                        h.body = rewrite_block(h.body, True)
                if not isinstance(st, (ast.FunctionDef, ast.AsyncFunctionDef, ast.ClassDef)):
                    st = ExprInliner().visit(st)
                out.append(st)
            return out

        caller.body[:] = rewrite_block(caller.body)  # in place: `container` lists of nested helpers stay valid
        ast.fix_missing_locations(caller)
        if count:
            _renumber(caller)
        return count

    # ---- P4 ------------------------------------------------------------------
    def propagate_locals(self):
        """P4: a new local (not a name of the pinned function) that is assigned once, from a side-effect-free expression whose
        inputs are not written afterwards, and that is read only by statements that follow the assignment in the same block,
        is replaced by its value.  Blocks at every nesting level are considered."""
        if not self.have_ref:
            return
        for q, fn, container, cls in self._functions():
            known = set(self.ref_locals.get(q, []))
            if q not in self.ref_funcs:
                continue
            for _round in range(6):
                stores, loads = {}, {}
                for n in _own_nodes(fn):
                    if isinstance(n, ast.Name):
                        if isinstance(n.ctx, (ast.Store, ast.Del)):
                            stores[n.id] = stores.get(n.id, 0) + 1
                        else:
                            loads.setdefault(n.id, []).append(n)
                changed = False

                def ok_value(t, v, st) -> bool:
                    if not (isinstance(t, ast.Name) and v is not None and t.id not in known and stores.get(t.id) == 1):
                        return False
                    if isinstance(v, (ast.Name, ast.Constant)) or not _pure_expr(v):
                        return False
                    n_loads = len(loads.get(t.id, []))
                    heavy = any(isinstance(x, (ast.Dict, ast.Call)) for x in ast.walk(v))
                    if (heavy and n_loads > 1) or any(isinstance(x, ast.Dict) for x in ast.walk(v)):
                        return False
                    reads_names = {n.id for n in ast.walk(v) if isinstance(n, ast.Name)}
                    reads_attrs = {ast.unparse(n) for n in ast.walk(v) if isinstance(n, ast.Attribute)}
                    for n in _own_nodes(fn):
                        if getattr(n, "lineno", 0) <= st.lineno:
                            continue
                        if isinstance(n, ast.Name) and isinstance(n.ctx, (ast.Store, ast.Del)) and n.id in reads_names:
                            return False
                        if isinstance(n, (ast.Attribute, ast.Subscript)) and isinstance(n.ctx, (ast.Store, ast.Del)):
                            txt = ast.unparse(n)
                            if any(txt == a_ or a_.startswith(txt + ".") or txt.startswith(a_ + "[") or txt.startswith(a_ + ".") for a_ in reads_attrs):
                                return False
                        if isinstance(n, ast.Call) and isinstance(n.func, ast.Attribute) \
                                and n.func.attr in ("append", "extend", "update", "pop", "clear", "add", "remove", "insert", "setdefault", "discard") \
                                and ast.unparse(n.func.value) in (reads_attrs | reads_names):
                            return False
                    return True

                def block(stmts):
                    nonlocal changed
                    i = 0
                    while i < len(stmts):
                        st = stmts[i]
                        if isinstance(st, (ast.Assign, ast.AnnAssign)):
                            t = st.targets[0] if isinstance(st, ast.Assign) and len(st.targets) == 1 else getattr(st, "target", None)
                            v = st.value
                            if ok_value(t, v, st):
                                later = {id(n) for s2 in stmts[i + 1:] for n in ast.walk(s2)}
                                if loads.get(t.id) and all(id(n) in later for n in loads[t.id]) \
                                        and not any(isinstance(d, (ast.FunctionDef, ast.AsyncFunctionDef, ast.Lambda)) and any(
                                            isinstance(x, ast.Name) and x.id == t.id for x in ast.walk(d)) for s2 in stmts[i + 1:] for d in ast.walk(s2)):
                                    sub = _Subst({t.id: v})
                                    stmts[i + 1:] = [sub.visit(s2) for s2 in stmts[i + 1:]]
                                    del stmts[i]
                                    self.stats["locals_propagated"] += 1
                                    changed = True
                                    return
                        for fld in ("body", "orelse", "finalbody"):
                            subl = getattr(st, fld, None)
                            if isinstance(subl, list) and not isinstance(st, (ast.FunctionDef, ast.AsyncFunctionDef, ast.ClassDef)):
                                block(subl)
                                if changed:
                                    return
                        if isinstance(st, ast.Try):
                            for h in st.handlers:
                                block(h.body)
                                if changed:
                                    return
                        i += 1

                block(fn.body)
                if not changed:
                    break
            ast.fix_missing_locations(fn)

    def propagate_adjacent(self):
        """P4b: a new local assigned once and read once, where the read is the first thing the next statement of the same block
        evaluates, is replaced by its value (whatever the value is -- nothing runs between the two evaluations).  Chains
        collapse by iteration (`c = <cond>; f = a if c else b; f(x)`)."""
        if not self.have_ref:
            return

        def head_exprs(st):
            if isinstance(st, (ast.Expr, ast.Return)) and st.value is not None:
                return [("value", st.value)]
            if isinstance(st, ast.Assign) and all(isinstance(t, ast.Name) for t in st.targets):
                return [("value", st.value)]
            if isinstance(st, (ast.If, ast.While)):
                return [("test", st.test)]
            if isinstance(st, ast.For):
                return [("iter", st.iter)]
            return []

        def first_evaluated(expr, name) -> bool:
            """is the (single) load of `name` reached before any call completes / any opaque construct is entered?"""
            state = {"hit": False, "dead": False}

            def ev(e):
                if state["hit"] or state["dead"] or e is None:
                    return
                if isinstance(e, ast.Name):
                    if e.id == name and isinstance(e.ctx, ast.Load):
                        state["hit"] = True
                    return
                if isinstance(e, ast.Constant):
                    return
                if isinstance(e, ast.Call):
                    ev(e.func)
                    for a in e.args:
                        ev(a)
                    for k in e.keywords:
                        ev(k.value)
                    if not state["hit"]:
                        state["dead"] = True
                    return
                if isinstance(e, ast.Attribute):
                    return ev(e.value)
                if isinstance(e, ast.Starred):
                    return ev(e.value)
                if isinstance(e, ast.BinOp):
                    ev(e.left)
                    return ev(e.right)
                if isinstance(e, ast.UnaryOp):
                    return ev(e.operand)
                if isinstance(e, ast.BoolOp):
                    # only the first operand is evaluated unconditionally
                    ev(e.values[0])
                    if not state["hit"]:
                        state["dead"] = True
                    return
                if isinstance(e, ast.Compare):
                    ev(e.left)
                    if not state["hit"] and len(e.comparators) == 1:
                        ev(e.comparators[0])
                    elif not state["hit"]:
                        state["dead"] = True
                    return
                if isinstance(e, ast.IfExp):
                    ev(e.test)
                    if not state["hit"]:
                        state["dead"] = True
                    return
                if isinstance(e, ast.Subscript):
                    ev(e.value)
                    return ev(e.slice)
                if isinstance(e, ast.Slice):
                    ev(e.lower)
                    ev(e.upper)
                    return ev(e.step)
                if isinstance(e, (ast.Tuple, ast.List, ast.Set)):
                    for x in e.elts:
                        ev(x)
                    return
                if isinstance(e, ast.JoinedStr):
                    for x in e.values:
                        ev(x)
                    return
                if isinstance(e, ast.FormattedValue):
                    return ev(e.value)
                state["dead"] = True

            ev(expr)
            return state["hit"] and not state["dead"]

        for q, fn, container, cls in self._functions():
            if q not in self.ref_funcs:
                continue
            known = set(self.ref_locals.get(q, []))
            params = {a.arg for a in fn.args.args + fn.args.kwonlyargs + fn.args.posonlyargs}
            for _round in range(8):
                stores, loads = {}, {}
                for n in _own_nodes(fn):
                    if isinstance(n, ast.Name):
                        if isinstance(n.ctx, (ast.Store, ast.Del)):
                            stores[n.id] = stores.get(n.id, 0) + 1
                        else:
                            loads[n.id] = loads.get(n.id, 0) + 1
                # names read by nested functions are not candidates
                nested_reads = {n.id for d in _own_nodes(fn) if isinstance(d, (ast.FunctionDef, ast.AsyncFunctionDef, ast.Lambda)) and d is not fn
                                for n in ast.walk(d) if isinstance(n, ast.Name)}
                changed = False

                def block(stmts):
                    nonlocal changed
                    i = 0
                    while i < len(stmts):
                        st = stmts[i]
                        nxt = stmts[i + 1] if i + 1 < len(stmts) else None
                        if isinstance(st, ast.Assign) and len(st.targets) == 1 and isinstance(st.targets[0], ast.Name) and nxt is not None:
                            nm = st.targets[0].id
                            if nm not in known and nm not in params and nm not in nested_reads and stores.get(nm) == 1 and loads.get(nm) == 1 \
                                    and not isinstance(st.value, (ast.Yield, ast.YieldFrom, ast.Await, ast.NamedExpr)):
                                for fld, e in head_exprs(nxt):
                                    if sum(1 for n in ast.walk(e) if isinstance(n, ast.Name) and n.id == nm) == 1 and first_evaluated(e, nm):
                                        setattr(nxt, fld, _Subst({nm: st.value}).visit(e))
                                        del stmts[i]
                                        self.stats["locals_propagated"] += 1
                                        changed = True
                                        break
                                else:
                                    i += 1
                                continue
                        for fld in ("body", "orelse", "finalbody"):
                            sub = getattr(st, fld, None)
                            if isinstance(sub, list) and not isinstance(st, (ast.FunctionDef, ast.AsyncFunctionDef, ast.ClassDef)):
                                block(sub)
                        if isinstance(st, ast.Try):
                            for h in st.handlers:
                                block(h.body)
                        i += 1

                block(fn.body)
                if not changed:
                    break
            ast.fix_missing_locations(fn)

    def lower_conditional_callee(self):
        """P5: `(f if c else g)(args)` as a statement, an assigned value or a returned value is the two-armed `if c:` with one
        call per arm (only for functions of the pinned tree, and only when P4b produced such a callee or the source has one)"""
        if not self.have_ref:
            return

        def lower(st):
            call = None
            if isinstance(st, (ast.Expr, ast.Return)) and isinstance(st.value, ast.Call):
                call = st.value
            elif isinstance(st, ast.Assign) and isinstance(st.value, ast.Call):
                call = st.value
            if call is None or not isinstance(call.func, ast.IfExp):
                return None
            arms = []
            for f in (call.func.body, call.func.orelse):
                c2 = copy.deepcopy(call)
                c2.func = copy.deepcopy(f)
                s2 = copy.copy(st)
                s2.value = c2
                arms.append(s2)
            new = ast.If(test=call.func.test, body=[arms[0]], orelse=[arms[1]])
            ast.copy_location(new, st)
            return new

        def block(stmts):
            for i, st in enumerate(stmts):
                new = lower(st)
                if new is not None:
                    stmts[i] = new
                    self.stats["conditional_callees_lowered"] = self.stats.get("conditional_callees_lowered", 0) + 1
                    continue
                for fld in ("body", "orelse", "finalbody"):
                    sub = getattr(st, fld, None)
                    if isinstance(sub, list) and not isinstance(st, ast.ClassDef):
                        block(sub)
                if isinstance(st, ast.Try):
                    for h in st.handlers:
                        block(h.body)

        for q, fn, container, cls in self._functions():
            if q in self.ref_funcs:
                block(fn.body)
        ast.fix_missing_locations(self.tree)

    def normalise_empty_arms(self):
        """P6: `if c: pass else: B` is `if not c: B` (double negations removed) -- the shape return elimination leaves behind
        for a guard clause `if c: return`"""
        def neg(t):
            if isinstance(t, ast.UnaryOp) and isinstance(t.op, ast.Not):
                return t.operand
            if isinstance(t, ast.Compare) and len(t.ops) == 1:
                flip = {ast.Is: ast.IsNot, ast.IsNot: ast.Is, ast.Eq: ast.NotEq, ast.NotEq: ast.Eq, ast.In: ast.NotIn, ast.NotIn: ast.In}
                k = type(t.ops[0])
                if k in flip:
                    return ast.copy_location(ast.Compare(left=t.left, ops=[flip[k]()], comparators=t.comparators), t)
            return ast.copy_location(ast.UnaryOp(op=ast.Not(), operand=t), t)

        class T(ast.NodeTransformer):
            def visit_If(self, node):
                self.generic_visit(node)
                if node.orelse and all(isinstance(b, ast.Pass) for b in node.body):
                    node.test = neg(node.test)
                    node.body, node.orelse = node.orelse, []
                return node

        for q, fn, container, cls in self._functions():
            if q in self.ref_funcs:
                T().visit(fn)
        ast.fix_missing_locations(self.tree)

    def unroll_reflective_loops(self):
        """P7: reflective attribute access over a literal tuple of names is the explicit statements:
        `for n in ("a", "b"): setattr(o, n, v)` -> `o.a = v; o.b = v`, `{n: getattr(o, n) for n in ("a", "b")}` ->
        `{"a": o.a, "b": o.b}`, and `getattr(o, "a")` / `setattr(o, "a", v)` with a constant identifier.  Only loops whose body
        uses the loop variable in nothing but such calls (and as a plain value) are unrolled."""
        import keyword

        def const_names(it):
            if isinstance(it, (ast.Tuple, ast.List)) and it.elts and all(isinstance(e, ast.Constant) and isinstance(e.value, str) for e in it.elts):
                return [e.value for e in it.elts]
            return None

        def ident(sv) -> bool:
            return sv.isidentifier() and not keyword.iskeyword(sv)

        class Fold(ast.NodeTransformer):
            def visit_Call(self, n):
                self.generic_visit(n)
                if isinstance(n.func, ast.Name) and n.func.id == "getattr" and len(n.args) == 2 and not n.keywords \
                        and isinstance(n.args[1], ast.Constant) and isinstance(n.args[1].value, str) and ident(n.args[1].value):
                    return ast.copy_location(ast.Attribute(value=n.args[0], attr=n.args[1].value, ctx=ast.Load()), n)
                return n

            def visit_Expr(self, n):
                self.generic_visit(n)
                c = n.value
                if isinstance(c, ast.Call) and isinstance(c.func, ast.Name) and c.func.id == "setattr" and len(c.args) == 3 and not c.keywords \
                        and isinstance(c.args[1], ast.Constant) and isinstance(c.args[1].value, str) and ident(c.args[1].value):
                    return ast.copy_location(ast.Assign(targets=[ast.Attribute(value=c.args[0], attr=c.args[1].value, ctx=ast.Store())], value=c.args[2]), n)
                return n

        def reflective_only(body, var) -> bool:
            uses = [n for b in body for n in ast.walk(b) if isinstance(n, ast.Name) and n.id == var]
            if not uses or any(isinstance(n.ctx, ast.Store) for n in uses):
                return False
            refl = set()
            for b in body:
                for c in ast.walk(b):
                    if isinstance(c, ast.Call) and isinstance(c.func, ast.Name) and c.func.id in ("setattr", "getattr") and len(c.args) >= 2 \
                            and isinstance(c.args[1], ast.Name) and c.args[1].id == var:
                        refl.add(id(c.args[1]))
            return bool(refl) and not any(isinstance(n, (ast.Break, ast.Continue)) for b in body for n in ast.walk(b))

        outer = self

        class Unroll(ast.NodeTransformer):
            def visit_For(self, n):
                self.generic_visit(n)
                names = const_names(n.iter)
                if names is None or not isinstance(n.target, ast.Name) or n.orelse or not reflective_only(n.body, n.target.id):
                    return n
                out = []
                for nm in names:
                    for b in n.body:
                        c = _Subst({n.target.id: ast.Constant(value=nm)}).visit(copy.deepcopy(b))
                        out.append(ast.copy_location(Fold().visit(c), n))
                outer.stats["reflective_loops_unrolled"] = outer.stats.get("reflective_loops_unrolled", 0) + 1
                return out

            def visit_DictComp(self, n):
                self.generic_visit(n)
                if len(n.generators) != 1 or n.generators[0].ifs or not isinstance(n.generators[0].target, ast.Name):
                    return n
                names = const_names(n.generators[0].iter)
                var = n.generators[0].target.id
                if names is None or not any(isinstance(c, ast.Call) and isinstance(c.func, ast.Name) and c.func.id == "getattr" and len(c.args) >= 2
                                            and isinstance(c.args[1], ast.Name) and c.args[1].id == var for c in ast.walk(n.value)):
                    return n
                keys, vals = [], []
                for nm in names:
                    sub = _Subst({var: ast.Constant(value=nm)})
                    keys.append(sub.visit(copy.deepcopy(n.key)))
                    vals.append(Fold().visit(sub.visit(copy.deepcopy(n.value))))
                outer.stats["reflective_loops_unrolled"] = outer.stats.get("reflective_loops_unrolled", 0) + 1
                return ast.copy_location(ast.Dict(keys=keys, values=vals), n)

        for q, fn, container, cls in self._functions():
            if q in self.ref_funcs:
                Unroll().visit(fn)
        ast.fix_missing_locations(self.tree)

    def fold_len(self):
        class T(ast.NodeTransformer):
            def visit_Call(self, node):
                self.generic_visit(node)
                if isinstance(node.func, ast.Name) and node.func.id == "len" and len(node.args) == 1 and not node.keywords \
                        and isinstance(node.args[0], ast.Constant) and isinstance(node.args[0].value, (str, bytes)):
                    return ast.copy_location(ast.Constant(value=len(node.args[0].value)), node)
                return node

        T().visit(self.tree)

    def drop_local_annotations(self):
        """`x: T = v` inside a function body is `x = v` for every rule (adding or removing annotations is a no-op)"""
        class T(ast.NodeTransformer):
            def __init__(self):
                self.depth = 0

            def visit_FunctionDef(self, node):
                self.depth += 1
                self.generic_visit(node)
                self.depth -= 1
                return node

            visit_AsyncFunctionDef = visit_FunctionDef

            def visit_ClassDef(self, node):
                saved, self.depth = self.depth, 0
                self.generic_visit(node)
                self.depth = saved
                return node

            def visit_AnnAssign(self, node):
                if self.depth and node.value is not None:
                    return ast.copy_location(ast.Assign(targets=[node.target], value=node.value), node)
                return node

        T().visit(self.tree)

    def run(self) -> dict:
        self.drop_local_annotations()
        self.fold_len()
        self.fold_constants()
        self.fold_len()  # len(NEW_CONSTANT) after the constant has been folded into its uses
        self.inline_helpers()
        self.unroll_reflective_loops()
        self.normalise_empty_arms()
        self.propagate_locals()
        self.propagate_adjacent()
        self.lower_conditional_callee()
        ast.fix_missing_locations(self.tree)
        return self.stats


def relocate(modname: str, tree: ast.Module) -> dict:
    """Functions of the pinned tree that were MOVED (nested function lifted to an outer scope or to module / class level, a
    closure turned into a method, or the reverse) keep their pinned qualified name for the analysis: when a pinned name is
    missing from the current tree and exactly one function with the same simple name exists under a non-pinned qualified name
    in the same module, that function (and everything nested in it) is indexed under the pinned name.  The mapping is stored on
    the def nodes as `_vq` and returned {actual qualified name: pinned qualified name}.  Nothing else about the function
    changes; rules see its real body, parameters and position."""
    ref = reference().get(modname, {})
    ref_funcs = set(ref.get("functions", {}))
    if not ref_funcs:
        return {}
    actual = {}
    in_new_class = set()   # functions defined inside a class the pinned tree does not have: never relocation candidates

    def walk(body, prefix, newcls=False):
        for st in body:
            if isinstance(st, (ast.FunctionDef, ast.AsyncFunctionDef)):
                actual.setdefault(prefix + st.name, st)
                if newcls:
                    in_new_class.add(prefix + st.name)
                walk(st.body, prefix + st.name + ".", newcls)
            elif isinstance(st, ast.ClassDef):
                pinned_cls = any(q.startswith(prefix + st.name + ".") for q in ref_funcs)
                walk(st.body, prefix + st.name + ".", newcls or not pinned_cls)
            elif isinstance(st, (ast.If, ast.Try, ast.With, ast.For, ast.While)):
                for fld in ("body", "orelse", "finalbody"):
                    walk(getattr(st, fld, []) or [], prefix, newcls)

    walk(tree.body, "")
    missing = sorted((q for q in ref_funcs if q not in actual), key=lambda q: q.count("."))
    mapping = {}
    for q in missing:
        if any(q.startswith(m + ".") for m in mapping.values()):
            continue  # nested in a function that was itself relocated: follows its parent
        parent_missing = ".".join(q.split(".")[:-1])
        if parent_missing and parent_missing not in actual and parent_missing in ref_funcs and parent_missing not in mapping.values():
            continue  # the enclosing pinned function is gone as well: not a move of this function alone
        simple = q.split(".")[-1]
        cands = [a for a in actual if a.split(".")[-1].lstrip("_") == simple.lstrip("_") and a not in ref_funcs and a not in mapping and a not in in_new_class
                 and not any(a.startswith(m + ".") for m in mapping)]
        if len(cands) == 1:
            mapping[cands[0]] = q
    for a, q in mapping.items():
        actual[a]._vq = q
    return mapping


def vq(node, prefix: str) -> str:
    """qualified name of a def node for the analysis: the pinned name of a relocated function, else prefix + name"""
    return getattr(node, "_vq", None) or (prefix + node.name)


def canonicalise(modname: str, tree: ast.Module) -> dict:
    return Canon(modname, tree, reference()).run()


def make_reference(pkgdir: str) -> dict:
    out = {}
    for fn in sorted(os.listdir(pkgdir)):
        if not fn.endswith(".py"):
            continue
        mod = fn[:-3]
        tree = ast.parse(open(os.path.join(pkgdir, fn), encoding="utf-8").read())
        c = Canon(mod, tree, {})
        funcs = {}
        for q, f, _cont, _cls in c._functions():
            locs = sorted({n.id for n in _own_nodes(f) if isinstance(n, ast.Name) and isinstance(n.ctx, (ast.Store, ast.Del))})
            funcs[q] = locs
        consts = []
        for st in tree.body:
            for t in (getattr(st, "targets", None) or [getattr(st, "target", None)]):
                if isinstance(t, ast.Name):
                    consts.append(t.id)
        out[mod] = {"functions": sorted(funcs), "constants": sorted(set(consts)), "locals": funcs}
    return out
