"""Per-run context shared by the rules of one property."""

from __future__ import annotations

from typing import Optional

from .index import Index


class Context:
    def __init__(self, tier: str = "quick", seed: int = 0, root: Optional[str] = None):
        self.tier = tier
        self.seed = seed
        self.index = Index(root)
        self._analysed_functions: set = set()
        self._analysed_files: set = set()
        self._lua = None
        self._mypy = None
        self._data = None

    @property
    def thorough(self) -> bool:
        return self.tier == "thorough"

    # ---- bookkeeping for evidence ----
    def touched(self, dotted_fn: str = "", file: str = "") -> None:
        if dotted_fn:
            self._analysed_functions.add(dotted_fn)
        if file:
            self._analysed_files.add(file)

    def fn(self, dotted: str):
        """Resolve an anchor function and record it as analysed."""
        f = self.index.func(dotted)
        self._analysed_functions.add(dotted)
        self._analysed_files.add(self.index.mod(dotted.split(".")[0]).relpath)
        return f

    def analysed_summary(self) -> dict:
        return {
            "files": sorted(self._analysed_files),
            "functions": sorted(self._analysed_functions),
            "n_functions": len(self._analysed_functions),
        }

    # ---- lazily built front ends ----
    @property
    def lua(self):
        if self._lua is None:
            from .lua import LuaProject

            self._lua = LuaProject(self.index)
        return self._lua

    @property
    def data(self):
        if self._data is None:
            from .data import DataFiles

            self._data = DataFiles(self.index)
        return self._data

    @property
    def mypy(self):
        if self._mypy is None:
            from .mypyrun import run_mypy

            self._mypy = run_mypy(self.index)
        return self._mypy
