"""Partial evaluation of a dispatch arm that serves several values of a discriminator variable.

Per-kind emitters / consumers are written either as one `elif kind == K:` arm per value or as one
arm `elif kind in TABLE:` whose body looks things up in a table keyed by the discriminator
(`label, fmt = TABLE[kind]`, `TABLE[kind][1](...)`) and may contain sub-branches `if kind == K2:`.
`specialise()` rewrites such a shared arm for ONE value of the discriminator so that the rules see the
same shape in both styles:

* `TABLE[var]` (TABLE a dict display with constant / enum-member keys, defined at module level or in an
  enclosing function) becomes the table's value for that key; indexing a tuple display with a constant
  is folded; tuple unpacking of a table row binds each name to its element;
* names bound once to such a value, to `node.<attr>` or to a slice of it are inlined;
* `if var == K:` / `if var in (...)` / `if var in TABLE` sub-branches are resolved.
"""

from __future__ import annotations

import ast
import copy
from typing import Callable, Optional


def table_keys(tbl: ast.AST) -> Optional[list]:
    """key expressions of a dict display / elements of a tuple, list or set display"""
    if isinstance(tbl, ast.Dict) and all(k is not None for k in tbl.keys):
        return list(tbl.keys)
    if isinstance(tbl, (ast.Tuple, ast.List, ast.Set)):
        return list(tbl.elts)
    if isinstance(tbl, ast.Call) and isinstance(tbl.func, ast.Name) and tbl.func.id in ("frozenset", "set", "tuple") and len(tbl.args) == 1:
        return table_keys(tbl.args[0])
    return None


def find_table(name: str, scopes: list) -> Optional[ast.AST]:
    """the display bound to `name` by a single assignment in one of the scopes (innermost first);
    scopes are lists of statements (function bodies, module body)"""
    for body in scopes:
        hits = []
        for st in body:
            tg = v = None
            if isinstance(st, ast.Assign) and len(st.targets) == 1 and isinstance(st.targets[0], ast.Name):
                tg, v = st.targets[0].id, st.value
            elif isinstance(st, ast.AnnAssign) and isinstance(st.target, ast.Name) and st.value is not None:
                tg, v = st.target.id, st.value
            if tg == name:
                hits.append(v)
        if len(hits) == 1 and table_keys(hits[0]) is not None:
            return hits[0]
        if hits:
            return None
    return None


def normalise_get_dispatch(stmts: list, var: str, scopes: list) -> list:
    """`x = TABLE.get(var)` directly followed by `if x is not None:` / `if x:` (TABLE a dict display without None / falsy
    values) is the membership dispatch `if var in TABLE: x = TABLE[var]; ...` -- rewritten to that form so that the
    per-key specialiser and the arm finders see one shape.  Other statements are returned unchanged."""
    out = []
    i = 0
    while i < len(stmts):
        st = stmts[i]
        nxt = stmts[i + 1] if i + 1 < len(stmts) else None
        if isinstance(st, ast.Assign) and len(st.targets) == 1 and isinstance(st.targets[0], ast.Name) and isinstance(nxt, ast.If) \
                and isinstance(st.value, ast.Call) and isinstance(st.value.func, ast.Attribute) and st.value.func.attr == "get" \
                and isinstance(st.value.func.value, (ast.Name, ast.Dict)) and len(st.value.args) == 1 and isinstance(st.value.args[0], ast.Name) \
                and st.value.args[0].id == var and not st.value.keywords:
            x = st.targets[0].id
            recv = st.value.func.value
            tbl = find_table(recv.id, scopes) if isinstance(recv, ast.Name) else recv
            t = nxt.test
            positive = (isinstance(t, ast.Name) and t.id == x) or (
                isinstance(t, ast.Compare) and len(t.ops) == 1 and isinstance(t.ops[0], ast.IsNot) and isinstance(t.left, ast.Name)
                and t.left.id == x and isinstance(t.comparators[0], ast.Constant) and t.comparators[0].value is None)
            truthy_vals = isinstance(tbl, ast.Dict) and all(
                (isinstance(v, ast.Constant) and bool(v.value)) or isinstance(v, (ast.Tuple, ast.Attribute, ast.Name, ast.Lambda)) for v in tbl.values)
            used_later = any(isinstance(n, ast.Name) and n.id == x for later in stmts[i + 2:] for n in ast.walk(later)) \
                or any(isinstance(n, ast.Name) and n.id == x for o in nxt.orelse for n in ast.walk(o))
            negative = (isinstance(t, ast.UnaryOp) and isinstance(t.op, ast.Not) and isinstance(t.operand, ast.Name) and t.operand.id == x) or (
                isinstance(t, ast.Compare) and len(t.ops) == 1 and isinstance(t.ops[0], ast.Is) and isinstance(t.left, ast.Name)
                and t.left.id == x and isinstance(t.comparators[0], ast.Constant) and t.comparators[0].value is None)
            if negative and truthy_vals and not nxt.orelse and nxt.body and isinstance(nxt.body[-1], (ast.Return, ast.Continue, ast.Break, ast.Raise)):
                # `x = T.get(var); if x is None: <leave>; <rest>`  ==  `if var in T: x = T[var]; <rest>  else: <leave>`
                look = ast.Assign(targets=[ast.Name(id=x, ctx=ast.Store())],
                                  value=ast.Subscript(value=copy.deepcopy(recv), slice=ast.Name(id=var, ctx=ast.Load()), ctx=ast.Load()))
                ast.copy_location(look, st)
                rest = normalise_get_dispatch(list(stmts[i + 2:]), var, scopes)
                new = ast.If(test=ast.Compare(left=ast.Name(id=var, ctx=ast.Load()), ops=[ast.In()], comparators=[copy.deepcopy(recv)]),
                             body=[look] + rest, orelse=list(nxt.body))
                ast.copy_location(new, nxt)
                ast.fix_missing_locations(new)
                out.append(new)
                return out
            if positive and truthy_vals and not used_later:
                look = ast.Assign(targets=[ast.Name(id=x, ctx=ast.Store())],
                                  value=ast.Subscript(value=copy.deepcopy(recv), slice=ast.Name(id=var, ctx=ast.Load()), ctx=ast.Load()))
                ast.copy_location(look, st)
                new = ast.If(test=ast.Compare(left=ast.Name(id=var, ctx=ast.Load()), ops=[ast.In()],
                                              comparators=[copy.deepcopy(recv)]),
                             body=[look] + list(nxt.body), orelse=list(nxt.orelse))
                ast.copy_location(new, nxt)
                ast.fix_missing_locations(new)
                out.append(new)
                i += 2
                continue
        out.append(st)
        i += 1
    return out


def specialise(stmts: list, var: str, key_text: str, scopes: list, same_key: Optional[Callable] = None) -> list:
    """`stmts` rewritten for `var == <key>`; key_text is the source text of the key (e.g. "'L'" or
    "NodeKind.TEMPLATE"); same_key(node) may override the comparison of a key expression with the key."""

    def is_key(k: ast.AST) -> bool:
        if same_key is not None:
            return same_key(k)
        return ast.unparse(k) == key_text

    def lookup(tbl_name: str):
        tbl = find_table(tbl_name, scopes)
        if isinstance(tbl, ast.Dict):
            for k, v in zip(tbl.keys, tbl.values):
                if k is not None and is_key(k):
                    return v
        return None

    def member(tbl_expr: ast.AST):
        keys = None
        if isinstance(tbl_expr, ast.Name):
            t = find_table(tbl_expr.id, scopes)
            keys = table_keys(t) if t is not None else None
        else:
            keys = table_keys(tbl_expr)
        if keys is None:
            return None
        return any(is_key(k) for k in keys)

    class Sub(ast.NodeTransformer):
        def __init__(self, env):
            self.env = env

        def visit_Name(self, n):
            if isinstance(n.ctx, ast.Load) and n.id in self.env:
                return copy.deepcopy(self.env[n.id])
            return n

        def visit_Call(self, n):
            self.generic_visit(n)
            # getattr(obj, "name") with a constant name is the attribute
            if isinstance(n.func, ast.Name) and n.func.id == "getattr" and len(n.args) == 2 and isinstance(n.args[1], ast.Constant) \
                    and isinstance(n.args[1].value, str) and n.args[1].value.isidentifier() and not n.keywords:
                return ast.copy_location(ast.Attribute(value=n.args[0], attr=n.args[1].value, ctx=ast.Load()), n)
            return n

        def visit_IfExp(self, n):
            self.generic_visit(n)
            d = test_value(n.test)
            if d is True:
                return n.body
            if d is False:
                return n.orelse
            return n

        def visit_Subscript(self, n):
            self.generic_visit(n)
            if isinstance(n.value, ast.Name) and isinstance(n.slice, ast.Name) and n.slice.id == var and isinstance(n.ctx, ast.Load):
                v = lookup(n.value.id)
                if v is not None:
                    return copy.deepcopy(v)
            if isinstance(n.value, ast.Dict) and isinstance(n.slice, ast.Name) and n.slice.id == var and isinstance(n.ctx, ast.Load):
                for k, v in zip(n.value.keys, n.value.values):
                    if k is not None and is_key(k):
                        return copy.deepcopy(v)
            if isinstance(n.value, (ast.Tuple, ast.List)) and isinstance(n.slice, ast.Constant) and isinstance(n.slice.value, int) \
                    and -len(n.value.elts) <= n.slice.value < len(n.value.elts):
                return n.value.elts[n.slice.value]
            return n

    def subst(e, env):
        return Sub(env).visit(copy.deepcopy(e))

    def aliasable(v) -> bool:
        if isinstance(v, ast.Constant):
            return True
        b = v
        while isinstance(b, ast.Subscript):
            b = b.value
        while isinstance(b, ast.Attribute):
            b = b.value
        return isinstance(b, ast.Name) and b.id in ("node", "self", "ctx", "wtp") and not isinstance(v, ast.Name)

    def test_value(t):
        if isinstance(t, ast.Compare) and len(t.ops) == 1 and isinstance(t.left, ast.Name) and t.left.id == var:
            op, rhs = t.ops[0], t.comparators[0]
            if isinstance(op, (ast.Eq, ast.NotEq)):
                r = is_key(rhs)
                return r if isinstance(op, ast.Eq) else not r
            if isinstance(op, (ast.In, ast.NotIn)):
                r = member(rhs)
                if r is None:
                    return None
                return r if isinstance(op, ast.In) else not r
        if isinstance(t, ast.BoolOp):
            vals = [test_value(x) for x in t.values]
            if isinstance(t.op, ast.Or):
                if any(v is True for v in vals):
                    return True
                if all(v is False for v in vals):
                    return False
            else:
                if any(v is False for v in vals):
                    return False
                if all(v is True for v in vals):
                    return True
        return None

    def run(stmts, env):
        out = []
        for st in stmts:
            if isinstance(st, ast.Assign) and len(st.targets) == 1:
                tg, v = st.targets[0], subst(st.value, env)
                if isinstance(tg, (ast.Tuple, ast.List)) and isinstance(v, (ast.Tuple, ast.List)) and len(v.elts) == len(tg.elts) \
                        and all(isinstance(x, ast.Name) for x in tg.elts) and all(aliasable(e) or isinstance(e, ast.Constant) for e in v.elts):
                    for nm, val in zip(tg.elts, v.elts):
                        env[nm.id] = val
                    continue
                if isinstance(tg, ast.Name) and aliasable(v):
                    env[tg.id] = v
                    continue
                if isinstance(tg, ast.Name):
                    env.pop(tg.id, None)
                new = copy.copy(st)
                new.value = v
                out.append(new)
                continue
            if isinstance(st, ast.If):
                d = test_value(st.test)
                if d is True:
                    out.extend(run(st.body, env))
                    continue
                if d is False:
                    out.extend(run(st.orelse, env))
                    continue
                e1, e2 = dict(env), dict(env)
                new = copy.copy(st)
                new.test = subst(st.test, env)
                new.body = run(st.body, e1) or [ast.Pass()]
                new.orelse = run(st.orelse, e2)
                for k_ in list(env):
                    if k_ not in e1 or k_ not in e2 or ast.unparse(e1[k_]) != ast.unparse(env[k_]) or ast.unparse(e2[k_]) != ast.unparse(env[k_]):
                        env.pop(k_, None)
                ast.copy_location(new, st)
                out.append(new)
                continue
            if isinstance(st, (ast.For, ast.While)):
                new = copy.copy(st)
                if isinstance(st, ast.For):
                    new.iter = subst(st.iter, env)
                else:
                    new.test = subst(st.test, env)
                new.body = run(st.body, dict(env)) or [ast.Pass()]
                out.append(new)
                continue
            if isinstance(st, (ast.With, ast.Try)):
                new = copy.copy(st)
                if isinstance(st, ast.With):
                    new.items = [subst(it, env) for it in st.items]
                new.body = run(st.body, dict(env)) or [ast.Pass()]
                if isinstance(st, ast.Try):
                    new.finalbody = run(st.finalbody, dict(env))
                out.append(new)
                continue
            out.append(subst(st, env))
        return out

    res = run(stmts, {})
    for n in res:
        ast.fix_missing_locations(n)
    return res
