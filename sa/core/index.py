"""E1 source index: parsed modules, qualified names, anchor resolution and a
constant folder for module-level expressions (regex sources, SQL text, enum
flag sets, small tables) -- all without importing the package."""

from __future__ import annotations

import ast
import os
from typing import Any, Iterator, Optional

from .report import AnalysisError

PKG = "src/wikitextprocessor"


def repo_root() -> str:
    return os.environ.get("VERIF_REPO", "/repo")


class Unfoldable(Exception):
    pass


_REF = None


def _reference() -> dict:
    global _REF
    if _REF is None:
        from .alpha import load_reference

        _REF = load_reference()
    return _REF


class EnumMember:
    """A member of an enum.Flag class recovered from its ClassDef."""

    __slots__ = ("cls", "name")

    def __init__(self, cls: str, name: str):
        self.cls = cls
        self.name = name

    def __repr__(self):
        return "{}.{}".format(self.cls, self.name)

    def __eq__(self, o):
        return isinstance(o, EnumMember) and (o.cls, o.name) == (self.cls, self.name)

    def __hash__(self):
        return hash((self.cls, self.name))


class FlagSet(frozenset):
    """Union of enum.Flag members (A | B).  `m in flags` is membership."""


class EnumClass:
    def __init__(self, name: str, members: list):
        self.name = name
        self.members = members

    def all(self) -> FlagSet:
        return FlagSet(EnumMember(self.name, m) for m in self.members)


class FuncRef:
    """Reference to a function defined at module level (not called)."""

    __slots__ = ("mod", "name")

    def __init__(self, mod: str, name: str):
        self.mod = mod
        self.name = name

    def __repr__(self):
        return "<fn {}.{}>".format(self.mod, self.name)

    def __eq__(self, o):
        return isinstance(o, FuncRef) and (o.mod, o.name) == (self.mod, self.name)

    def __hash__(self):
        return hash((self.mod, self.name))


class ExtRef:
    """Reference to a callable from outside the package (math.log, abs, ...)."""

    __slots__ = ("dotted",)

    def __init__(self, dotted: str):
        self.dotted = dotted

    def __repr__(self):
        return "<ext {}>".format(self.dotted)

    def __eq__(self, o):
        return isinstance(o, ExtRef) and o.dotted == self.dotted

    def __hash__(self):
        return hash(self.dotted)


class LambdaRef:
    __slots__ = ("node", "mod")

    def __init__(self, node, mod):
        self.node = node
        self.mod = mod

    def __repr__(self):
        return "<lambda {}>".format(ast.unparse(self.node))


class PatternStr(str):
    """A regex source produced by re.compile(...) at module level."""

    flags = 0


class Module:
    def __init__(self, name: str, path: str, relpath: str):
        self.name = name
        self.path = path
        self.relpath = relpath
        with open(path, encoding="utf-8") as f:
            self.source = f.read()
        self.tree = ast.parse(self.source, filename=path)
        self.alpha_renamed = 0
        self.relocated: dict = {}
        if os.environ.get("VERIF_NO_CANON") != "1":
            from .canon import relocate

            self.relocated = relocate(name, self.tree)
        if os.environ.get("VERIF_NO_ALPHA") != "1":
            from .alpha import canonicalise, load_reference

            self.alpha_renamed = canonicalise(name, self.tree, _reference())
        self.canon_stats: dict = {}
        if os.environ.get("VERIF_NO_CANON") != "1":
            from .canon import canonicalise as _canon

            self.canon_stats = _canon(name, self.tree)
        self.parents: dict = {}
        self.qual: dict = {}
        self.funcs: dict = {}
        self.classes: dict = {}
        self._index(self.tree, "")
        self._consts: Optional[dict] = None

    def _index(self, node: ast.AST, prefix: str) -> None:
        for child in ast.iter_child_nodes(node):
            self.parents[child] = node
            if isinstance(child, (ast.FunctionDef, ast.AsyncFunctionDef)):
                q = getattr(child, "_vq", None) or (prefix + child.name)
                prev = self.funcs.get(q)
                # typing.overload stubs come first; the implementation is the undecorated definition
                if prev is None or any("overload" in ast.unparse(d) for d in prev.decorator_list):
                    self.funcs[q] = child
                self.qual[child] = q
                self._index(child, q + ".")
            elif isinstance(child, ast.ClassDef):
                q = prefix + child.name
                self.classes[q] = child
                self.qual[child] = q
                self._index(child, q + ".")
            else:
                self._index(child, prefix)

    def enclosing_function(self, node: ast.AST) -> str:
        n = node
        while n in self.parents:
            n = self.parents[n]
            if n in self.qual and isinstance(n, (ast.FunctionDef, ast.AsyncFunctionDef)):
                return self.qual[n]
        return "<module>"

    def enclosing_def(self, node: ast.AST):
        n = node
        while n in self.parents:
            n = self.parents[n]
            if isinstance(n, (ast.FunctionDef, ast.AsyncFunctionDef, ast.Lambda)):
                return n
        return None


class Index:
    def __init__(self, root: Optional[str] = None):
        self.root = root or repo_root()
        self.pkgdir = os.path.join(self.root, PKG)
        if not os.path.isdir(self.pkgdir):
            raise AnalysisError("package directory not found: " + self.pkgdir)
        self.modules: dict = {}
        for fn in sorted(os.listdir(self.pkgdir)):
            if fn.endswith(".py"):
                name = fn[:-3]
                try:
                    self.modules[name] = Module(
                        name, os.path.join(self.pkgdir, fn), PKG + "/" + fn
                    )
                except SyntaxError as e:
                    raise AnalysisError("cannot parse {}: {}".format(fn, e))
        self._folding: set = set()
        self._fold_stack: list = []
        self._tainted: set = set()

    # ---- anchors -------------------------------------------------------
    def mod(self, name: str) -> Module:
        if name not in self.modules:
            raise AnalysisError("anchor module vanished: " + name)
        return self.modules[name]

    def func(self, dotted: str) -> ast.FunctionDef:
        """'core.Wtp.expand.expand_recurse' -> FunctionDef; AnalysisError if gone."""
        modname, _, q = dotted.partition(".")
        m = self.mod(modname)
        if q not in m.funcs:
            raise AnalysisError("anchor function vanished: " + dotted)
        return m.funcs[q]

    def has_func(self, dotted: str) -> bool:
        modname, _, q = dotted.partition(".")
        return modname in self.modules and q in self.modules[modname].funcs

    def cls(self, dotted: str) -> ast.ClassDef:
        modname, _, q = dotted.partition(".")
        m = self.mod(modname)
        if q not in m.classes:
            raise AnalysisError("anchor class vanished: " + dotted)
        return m.classes[q]

    def all_functions(self) -> Iterator[tuple]:
        for mn, m in self.modules.items():
            for q, f in m.funcs.items():
                yield mn + "." + q, m, f

    def lua_path(self, name: str) -> str:
        p = os.path.join(self.pkgdir, "lua", name)
        if not os.path.exists(p):
            raise AnalysisError("anchor Lua file vanished: " + name)
        return p

    # ---- constant folding ---------------------------------------------
    def consts(self, modname: str) -> dict:
        """Module-level names whose values can be folded, evaluated in order."""
        m = self.mod(modname)
        if m._consts is not None:
            return m._consts
        if modname in self._folding:
            # import cycle: the module is being folded further up.  Whatever is folded between that frame and this one sees
            # an incomplete view of it, so those results are not cached (a later direct request folds them again)
            self._tainted |= set(self._fold_stack[self._fold_stack.index(modname) + 1:])
            return {}
        self._folding.add(modname)
        self._fold_stack.append(modname)
        env: dict = {}
        ev = ConstEval(self, modname, env)
        try:
            for st in m.tree.body:
                ev.exec_stmt(st)
        finally:
            self._folding.discard(modname)
            self._fold_stack.pop()
        if modname in self._tainted:
            self._tainted.discard(modname)
        else:
            m._consts = env
        return env

    def const(self, modname: str, name: str) -> Any:
        env = self.consts(modname)
        if name not in env:
            raise AnalysisError(
                "module-level constant {}.{} vanished or is no longer foldable".format(modname, name)
            )
        return env[name]

    def fold(self, modname: str, expr: ast.AST, local: Optional[dict] = None) -> Any:
        env = dict(self.consts(modname))
        if local:
            env.update(local)
        return ConstEval(self, modname, env).eval(expr)


_SAFE_BUILTINS = {
    "len": len, "chr": chr, "ord": ord, "str": str, "int": int, "tuple": tuple,
    "list": list, "set": set, "frozenset": frozenset, "dict": dict, "range": range,
    "iter": iter, "next": next, "sorted": sorted, "reversed": reversed, "min": min,
    "max": max, "bool": bool, "enumerate": enumerate, "zip": zip, "map": None,
    "any": any, "all": all, "sum": sum, "repr": repr,
}
_SAFE_STR_METHODS = {
    "format", "join", "lower", "upper", "strip", "lstrip", "rstrip", "startswith",
    "endswith", "replace", "split", "keys", "values", "items", "get", "copy",
    "removeprefix", "removesuffix", "count", "find", "index", "isdigit", "isdecimal",
}


class ConstEval:
    """A deliberately small evaluator for constant expressions.  It interprets
    only literal data, string operations and a white-list of pure builtins; any
    other construct raises Unfoldable.  Used instead of importing the package."""

    def __init__(self, index: Index, modname: str, env: dict):
        self.index = index
        self.modname = modname
        self.env = env

    # -- statements (module level) --
    def exec_stmt(self, st: ast.stmt) -> None:
        try:
            if isinstance(st, ast.Assign):
                v = self.eval(st.value)
                for t in st.targets:
                    self._assign(t, v)
            elif isinstance(st, ast.AnnAssign) and st.value is not None:
                self._assign(st.target, self.eval(st.value))
            elif isinstance(st, ast.ImportFrom) and st.level >= 1 and st.module:
                src = self.index.consts(st.module) if st.module in self.index.modules else {}
                for a in st.names:
                    if a.name in src:
                        self.env[a.asname or a.name] = src[a.name]
            elif isinstance(st, ast.ClassDef):
                self._classdef(st)
            elif isinstance(st, (ast.FunctionDef, ast.AsyncFunctionDef)):
                self.env[st.name] = FuncRef(self.modname, st.name)
            elif isinstance(st, ast.Import):
                for a in st.names:
                    self.env.setdefault("%import:" + (a.asname or a.name).split(".")[0], a.name)
            elif isinstance(st, ast.For):
                it = self.eval(st.iter)
                for x in list(it):
                    self._assign(st.target, x)
                    for b in st.body:
                        self.exec_stmt(b)
            elif isinstance(st, ast.If):
                # TYPE_CHECKING blocks and the like: ignore
                pass
        except Unfoldable:
            # a later reader of that name gets "vanished or not foldable"
            if isinstance(st, ast.Assign):
                for t in st.targets:
                    if isinstance(t, ast.Name):
                        self.env.pop(t.id, None)
        except (TypeError, ValueError, KeyError, IndexError, StopIteration, AttributeError):
            pass

    def _classdef(self, c: ast.ClassDef) -> None:
        bases = [ast.unparse(b) for b in c.bases]
        if any(b.startswith("enum.") or b in ("Flag", "Enum", "IntFlag") for b in bases):
            members = []
            for st in c.body:
                if isinstance(st, ast.Assign) and len(st.targets) == 1 and isinstance(st.targets[0], ast.Name):
                    members.append(st.targets[0].id)
            self.env[c.name] = EnumClass(c.name, members)

    def _assign(self, t: ast.AST, v: Any) -> None:
        if isinstance(t, ast.Name):
            self.env[t.id] = v
        elif isinstance(t, ast.Subscript):
            obj = self.eval(t.value)
            if isinstance(obj, dict):
                obj[self.eval(t.slice)] = v
            else:
                raise Unfoldable("subscript store")
        elif isinstance(t, (ast.Tuple, ast.List)):
            vs = list(v)
            if len(vs) != len(t.elts):
                raise Unfoldable("unpack")
            for tt, vv in zip(t.elts, vs):
                self._assign(tt, vv)
        else:
            raise Unfoldable("target")

    # -- expressions --
    def eval(self, e: ast.AST) -> Any:
        m = getattr(self, "e_" + type(e).__name__, None)
        if m is None:
            raise Unfoldable(type(e).__name__)
        return m(e)

    def e_Constant(self, e):
        return e.value

    def e_Name(self, e):
        if e.id in self.env:
            return self.env[e.id]
        if e.id in ("True", "False", "None"):
            return {"True": True, "False": False, "None": None}[e.id]
        if e.id in ("abs", "round", "int", "float", "str", "len", "min", "max", "pow", "divmod"):
            return ExtRef(e.id)
        raise Unfoldable("name " + e.id)

    def e_Lambda(self, e):
        return LambdaRef(e, self.modname)

    def e_Tuple(self, e):
        return tuple(self._elts(e.elts))

    def e_List(self, e):
        return list(self._elts(e.elts))

    def e_Set(self, e):
        return set(self._elts(e.elts))

    def _elts(self, elts):
        out = []
        for x in elts:
            if isinstance(x, ast.Starred):
                out.extend(self.eval(x.value))
            else:
                out.append(self.eval(x))
        return out

    def e_Dict(self, e):
        d = {}
        for k, v in zip(e.keys, e.values):
            if k is None:
                d.update(self.eval(v))
            else:
                d[self.eval(k)] = self.eval(v)
        return d

    def e_JoinedStr(self, e):
        parts = []
        for v in e.values:
            if isinstance(v, ast.Constant):
                parts.append(str(v.value))
            elif isinstance(v, ast.FormattedValue):
                val = self.eval(v.value)
                spec = self.eval(v.format_spec) if v.format_spec is not None else ""
                if v.conversion == ord("r"):
                    val = repr(val)
                parts.append(format(val, spec))
            else:
                raise Unfoldable("fstring")
        return "".join(parts)

    def e_BinOp(self, e):
        a, b = self.eval(e.left), self.eval(e.right)
        op = type(e.op)
        if isinstance(a, (EnumMember, FlagSet)) or isinstance(b, (EnumMember, FlagSet)):
            sa, sb = _as_flagset(a), _as_flagset(b)
            if op is ast.BitOr:
                return FlagSet(sa | sb)
            if op is ast.BitAnd:
                return FlagSet(sa & sb)
            raise Unfoldable("flag op")
        try:
            if op is ast.Add:
                return a + b
            if op is ast.Sub:
                return a - b
            if op is ast.Mult:
                return a * b
            if op is ast.BitOr:
                return a | b
            if op is ast.BitAnd:
                return a & b
            if op is ast.Mod:
                return a % b
            if op is ast.FloorDiv:
                return a // b
        except Exception as ex:  # noqa: BLE001
            raise Unfoldable(str(ex))
        raise Unfoldable("binop")

    def e_UnaryOp(self, e):
        v = self.eval(e.operand)
        if isinstance(e.op, ast.Invert) and isinstance(v, (EnumMember, FlagSet)):
            cls = next(iter(_as_flagset(v))).cls
            allm = self._enum(cls).all()
            return FlagSet(allm - _as_flagset(v))
        if isinstance(e.op, ast.USub):
            return -v
        if isinstance(e.op, ast.Not):
            return not v
        if isinstance(e.op, ast.Invert):
            return ~v
        raise Unfoldable("unary")

    def _enum(self, cls: str) -> EnumClass:
        c = self.env.get(cls)
        if isinstance(c, EnumClass):
            return c
        # modules already folded first; folding the rest from here could run into an import cycle
        order = sorted(self.index.modules, key=lambda mn: self.index.modules[mn]._consts is None)
        for mn in order:
            if mn == self.modname:
                continue
            c = self.index.consts(mn).get(cls)
            if isinstance(c, EnumClass):
                return c
        raise Unfoldable("enum " + cls)

    def e_BoolOp(self, e):
        if isinstance(e.op, ast.And):
            v = True
            for x in e.values:
                v = self.eval(x)
                if not v:
                    return v
            return v
        v = False
        for x in e.values:
            v = self.eval(x)
            if v:
                return v
        return v

    def e_IfExp(self, e):
        return self.eval(e.body) if self.eval(e.test) else self.eval(e.orelse)

    def e_Compare(self, e):
        left = self.eval(e.left)
        for op, r in zip(e.ops, e.comparators):
            right = self.eval(r)
            if not _cmp(op, left, right):
                return False
            left = right
        return True

    def e_Attribute(self, e):
        if isinstance(e.value, ast.Name) and e.value.id == "re" and "re" not in self.env:
            import re as _re

            if e.attr.isupper() and hasattr(_re, e.attr):
                return int(getattr(_re, e.attr))
            raise Unfoldable("re." + e.attr)
        if isinstance(e.value, ast.Name) and e.value.id == "math" and e.attr in ("e", "pi"):
            import math

            return getattr(math, e.attr)
        if isinstance(e.value, ast.Name) and ("%import:" + e.value.id) in self.env and e.value.id not in self.env:
            return ExtRef(e.value.id + "." + e.attr)
        obj = self.eval(e.value)
        if isinstance(obj, EnumClass):
            if e.attr in obj.members:
                return EnumMember(obj.name, e.attr)
            raise Unfoldable("enum member " + e.attr)
        if isinstance(obj, EnumMember) and e.attr == "name":
            return obj.name
        raise Unfoldable("attribute " + e.attr)

    def e_Subscript(self, e):
        obj = self.eval(e.value)
        if isinstance(e.slice, ast.Slice):
            lo = self.eval(e.slice.lower) if e.slice.lower else None
            hi = self.eval(e.slice.upper) if e.slice.upper else None
            st = self.eval(e.slice.step) if e.slice.step else None
            return obj[lo:hi:st]
        try:
            return obj[self.eval(e.slice)]
        except Exception as ex:  # noqa: BLE001
            raise Unfoldable(str(ex))

    def e_Call(self, e):
        f = e.func
        if isinstance(f, ast.Name) and f.id == "map" and "map" not in self.env and len(e.args) == 2 and not e.keywords:
            # map(fn, xs) over foldable data with a foldable function: re.escape, a safe builtin, a pure module function
            out = []
            for x in list(self.eval(e.args[1])):
                call = ast.Call(func=e.args[0], args=[ast.Constant(value=x)], keywords=[])
                ast.copy_location(call, e)
                ast.fix_missing_locations(call)
                out.append(self.eval(call))
            return out
        args = self._elts(e.args)
        kwargs = {k.arg: self.eval(k.value) for k in e.keywords if k.arg}
        if isinstance(f, ast.Name):
            if f.id in self.env and isinstance(self.env[f.id], EnumClass):
                raise Unfoldable("enum call")
            if f.id == "map" and "map" not in self.env:
                # map(fn, xs) over foldable data with a foldable function: re.escape, a safe builtin, a pure module function
                if len(e.args) == 2:
                    fn_e = e.args[0]
                    xs = list(self.eval(e.args[1]))
                    out = []
                    for x in xs:
                        call = ast.Call(func=fn_e, args=[ast.Constant(value=x)], keywords=[])
                        ast.copy_location(call, e)
                        ast.fix_missing_locations(call)
                        out.append(self.eval(call))
                    return out
                raise Unfoldable("map")
            if f.id in self.env and isinstance(self.env[f.id], FuncRef) and self.env[f.id].mod == self.modname:
                return self._call_pure(self.env[f.id], args, kwargs)
            if f.id in _SAFE_BUILTINS and f.id not in self.env:
                try:
                    return _SAFE_BUILTINS[f.id](*args, **kwargs)
                except Exception as ex:  # noqa: BLE001
                    raise Unfoldable(str(ex))
            raise Unfoldable("call " + f.id)
        if isinstance(f, ast.Attribute):
            if isinstance(f.value, ast.Name) and f.value.id == "re" and "re" not in self.env:
                import re as _re

                if f.attr == "compile":
                    p = PatternStr(args[0])
                    p.flags = args[1] if len(args) > 1 else kwargs.get("flags", 0)
                    return p
                if f.attr == "escape":
                    return _re.escape(args[0])
                raise Unfoldable("re." + f.attr)
            if isinstance(f.value, ast.Name) and f.value.id == "enum" and f.attr == "auto":
                raise Unfoldable("enum.auto")
            if isinstance(f.value, ast.Name) and f.value.id == "str" and "str" not in self.env and f.attr == "maketrans":
                try:
                    return str.maketrans(*args)
                except Exception as ex:  # noqa: BLE001
                    raise Unfoldable(str(ex))
            obj = self.eval(f.value)
            if isinstance(obj, (str, dict, list, tuple, set, frozenset)) and f.attr in _SAFE_STR_METHODS:
                if isinstance(obj, (dict, list, set)) and f.attr in ("copy",):
                    return obj.copy()
                try:
                    return getattr(obj, f.attr)(*args, **kwargs)
                except Exception as ex:  # noqa: BLE001
                    raise Unfoldable(str(ex))
            raise Unfoldable("method " + f.attr)
        raise Unfoldable("call")

    _depth = 0

    def _call_pure(self, ref: "FuncRef", args: list, kwargs: dict):
        """Fold a call of a module-level function that only builds data: its body may assign locals, branch on foldable tests,
        store into its own dict/list locals and return.  Anything else (loops over unknowns, calls of unfoldable things,
        global state) is Unfoldable.  This is how `TABLE = {"a": _entry(("x",), no_end=True), ...}` is read."""
        m = self.index.modules[ref.mod]
        fn = m.funcs.get(ref.name)
        if fn is None or fn.decorator_list or ConstEval._depth > 6:
            raise Unfoldable("call " + ref.name)
        a = fn.args
        if a.vararg or a.kwarg or a.posonlyargs:
            raise Unfoldable("signature of " + ref.name)
        params = [x.arg for x in a.args]
        local = dict(self.env)
        defaults = dict(zip(params[len(params) - len(a.defaults):], a.defaults))
        for kw, d in zip(a.kwonlyargs, a.kw_defaults):
            if d is not None:
                defaults[kw.arg] = d
        bound = dict(zip(params, args))
        bound.update(kwargs)
        for p_ in params + [x.arg for x in a.kwonlyargs]:
            if p_ not in bound:
                if p_ not in defaults:
                    raise Unfoldable("missing argument " + p_)
                bound[p_] = self.eval(defaults[p_])
        local.update(bound)
        sub = ConstEval(self.index, self.modname, local)

        class _Ret(Exception):
            def __init__(self, v):
                self.v = v

        def run(stmts):
            for st in stmts:
                if isinstance(st, ast.Expr) and isinstance(st.value, ast.Constant):
                    continue
                if isinstance(st, ast.Return):
                    raise _Ret(sub.eval(st.value) if st.value is not None else None)
                if isinstance(st, (ast.Assign, ast.AnnAssign)):
                    if isinstance(st, ast.AnnAssign) and st.value is None:
                        continue
                    v = sub.eval(st.value)
                    for t in (st.targets if isinstance(st, ast.Assign) else [st.target]):
                        sub._assign(t, v)
                    continue
                if isinstance(st, ast.If):
                    run(st.body if sub.eval(st.test) else st.orelse)
                    continue
                if isinstance(st, ast.For):
                    for x in list(sub.eval(st.iter)):
                        sub._assign(st.target, x)
                        run(st.body)
                    continue
                if isinstance(st, ast.Expr) and isinstance(st.value, ast.Call) and isinstance(st.value.func, ast.Attribute) \
                        and st.value.func.attr in ("append", "extend", "update", "add", "setdefault") and isinstance(st.value.func.value, ast.Name):
                    obj = sub.eval(st.value.func.value)
                    if isinstance(obj, (list, dict, set)) and st.value.func.value.id in bound or st.value.func.value.id in local and st.value.func.value.id not in self.env:
                        getattr(obj, st.value.func.attr)(*[sub.eval(x) for x in st.value.args])
                        continue
                raise Unfoldable("statement in " + ref.name)

        ConstEval._depth += 1
        try:
            run(fn.body)
        except _Ret as r:
            return r.v
        finally:
            ConstEval._depth -= 1
        return None

    def _comp(self, gens, emit):
        def rec(i):
            if i == len(gens):
                emit()
                return
            g = gens[i]
            for x in list(self.eval(g.iter)):
                self._assign(g.target, x)
                if all(self.eval(c) for c in g.ifs):
                    rec(i + 1)

        saved = dict(self.env)
        try:
            rec(0)
        finally:
            # comprehension variables do not leak
            for k in list(self.env):
                if k not in saved:
                    del self.env[k]
            self.env.update(saved)

    def e_ListComp(self, e):
        out = []
        self._comp(e.generators, lambda: out.append(self.eval(e.elt)))
        return out

    def e_GeneratorExp(self, e):
        return self.e_ListComp(e)

    def e_SetComp(self, e):
        out = set()
        self._comp(e.generators, lambda: out.add(self.eval(e.elt)))
        return out

    def e_DictComp(self, e):
        out = {}

        def emit():
            out[self.eval(e.key)] = self.eval(e.value)

        self._comp(e.generators, emit)
        return out


def _as_flagset(v) -> frozenset:
    if isinstance(v, EnumMember):
        return frozenset([v])
    if isinstance(v, frozenset):
        return v
    raise Unfoldable("not a flag")


def _cmp(op, a, b) -> bool:
    if isinstance(op, ast.Eq):
        return a == b
    if isinstance(op, ast.NotEq):
        return a != b
    if isinstance(op, ast.Lt):
        return a < b
    if isinstance(op, ast.LtE):
        return a <= b
    if isinstance(op, ast.Gt):
        return a > b
    if isinstance(op, ast.GtE):
        return a >= b
    if isinstance(op, ast.In):
        if isinstance(b, frozenset) and isinstance(a, (EnumMember, frozenset)) and any(
            isinstance(x, EnumMember) for x in b
        ) or (isinstance(b, FlagSet)):
            return _as_flagset(a) <= b
        return a in b
    if isinstance(op, ast.NotIn):
        return not _cmp(ast.In(), a, b)
    if isinstance(op, ast.Is):
        return a is b
    if isinstance(op, ast.IsNot):
        return a is not b
    raise Unfoldable("cmp")


# ---- small AST helpers shared by the property modules ----------------------

def unparse(node: ast.AST) -> str:
    return ast.unparse(node)


def calls_in(node: ast.AST) -> Iterator[ast.Call]:
    for n in ast.walk(node):
        if isinstance(n, ast.Call):
            yield n


def call_name(c: ast.Call) -> str:
    """'f', 'obj.m', 'a.b.m' -- dotted text of the callee, or '' if not a name."""
    try:
        return ast.unparse(c.func)
    except Exception:  # noqa: BLE001
        return ""


def walk_no_nested(node: ast.AST) -> Iterator[ast.AST]:
    """ast.walk that does not descend into nested function/class definitions
    (the node itself may be a FunctionDef)."""
    stack = list(ast.iter_child_nodes(node))
    while stack:
        n = stack.pop()
        yield n
        if isinstance(n, (ast.FunctionDef, ast.AsyncFunctionDef, ast.ClassDef, ast.Lambda)):
            continue
        stack.extend(ast.iter_child_nodes(n))


def is_attr(node: ast.AST, base: Any, attr: str) -> bool:
    """node is `<base>.<attr>` where base is a Name id or one of a set of ids."""
    if not isinstance(node, ast.Attribute) or node.attr != attr:
        return False
    if not isinstance(node.value, ast.Name):
        return False
    if isinstance(base, str):
        return node.value.id == base
    return node.value.id in base
