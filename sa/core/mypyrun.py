"""E9 mypy as a library: one in-process build of the package with strict equality,
returning the diagnostics (file, line, code, message).  Used only where a rule
is a typing fact (C18.R2, thorough tier cross-checks).  mypy 2.x ships in the
repository's own dev environment (/venv)."""

from __future__ import annotations

import os
import re

from .report import AnalysisError


class MypyResult:
    def __init__(self, diags: list, wall: float):
        self.diags = diags  # dicts: file, line, code, msg
        self.wall = wall

    def with_code(self, code: str) -> list:
        return [d for d in self.diags if d["code"] == code]


def run_mypy(index) -> MypyResult:
    import time

    t0 = time.time()
    try:
        from mypy import build as mbuild
        from mypy.find_sources import create_source_list
        from mypy.options import Options
    except ImportError as e:
        raise AnalysisError("mypy is not importable in this interpreter: {}".format(e))
    opts = Options()
    opts.incremental = False
    opts.cache_dir = os.devnull
    opts.strict_equality = True
    opts.warn_unreachable = False
    opts.ignore_missing_imports = True
    opts.follow_imports = "silent"
    if hasattr(opts, 'hide_error_codes'):
        opts.hide_error_codes = False
    opts.mypy_path = [os.path.join(index.root, "typestubs")]
    pkg = index.pkgdir
    cwd = os.getcwd()
    try:
        os.chdir(index.root)
        sources = create_source_list([pkg], opts)
        res = mbuild.build(sources, opts)
    except Exception as e:  # noqa: BLE001
        raise AnalysisError("mypy build failed: {}".format(e))
    finally:
        os.chdir(cwd)
    diags = []
    for line in res.errors:
        m = re.match(r"(.*?):(\d+): (error|note): (.*?)(?:  \[([a-z0-9-]+)\])?$", line)
        if m and m.group(3) == "error":
            diags.append({"file": os.path.relpath(m.group(1), index.root) if os.path.isabs(m.group(1)) else m.group(1),
                          "line": int(m.group(2)), "msg": m.group(4), "code": m.group(5) or ""})
    return MypyResult(diags, time.time() - t0)
