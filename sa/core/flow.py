"""E2 structured flow walker.

Python has no goto, so a syntax-directed walk over If/For/While/Try/With/
Return/Continue/Break/Raise carrying a *set* of abstract states per program
point is a path-sensitive analysis up to the chosen abstraction.  Clients
subclass Flow and override the hooks.  States must be hashable.

Loops iterate to a fixed point over the set of states at the loop head; a
client can veto a back edge (loop_backedge) to report "body is not balanced"
instead of diverging.  If the fixed point is not reached within the cap the
analysis is inconclusive (AnalysisError), never a violation.
"""

from __future__ import annotations

import ast
from dataclasses import dataclass, field
from typing import Any, Iterable, Optional

from .report import AnalysisError

MAX_ITER = 60
MAX_STATES = 4000


@dataclass
class Outcome:
    fall: set = field(default_factory=set)
    brk: set = field(default_factory=set)
    cont: list = field(default_factory=list)  # (node, state)
    ret: list = field(default_factory=list)  # (node, state)
    rais: list = field(default_factory=list)  # (node, state)

    def absorb_exits(self, o: "Outcome") -> None:
        self.brk |= o.brk
        self.cont.extend(o.cont)
        self.ret.extend(o.ret)
        self.rais.extend(o.rais)


class Flow:
    # ---- hooks -----------------------------------------------------------
    def transfer(self, stmt: ast.stmt, state: Any) -> Iterable:
        """Effect of a simple statement.  Return an iterable of successor
        states (usually one).  Default: evaluate contained expressions."""
        return self.transfer_expr(stmt, state)

    def transfer_expr(self, node: ast.AST, state: Any) -> Iterable:
        return [state]

    def branch(self, test: ast.expr, state: Any) -> tuple:
        """(states if true, states if false)."""
        s = list(self.transfer_expr(test, state))
        return s, s

    def _branch(self, test: ast.expr, state: Any) -> tuple:
        # constant conditions (`while True`) have only one feasible side
        if isinstance(test, ast.Constant):
            return ([state], []) if test.value else ([], [state])
        return self.branch(test, state)

    def for_iter(self, node: ast.For, state: Any) -> Iterable:
        return self.transfer_expr(node.iter, state)

    def for_target(self, node: ast.For, state: Any) -> Iterable:
        return [state]

    def with_enter(self, node: ast.With, state: Any) -> Iterable:
        out = [state]
        for it in node.items:
            nxt = []
            for s in out:
                nxt.extend(self.transfer_expr(it.context_expr, s))
            out = nxt
        return out

    def with_exit(self, node: ast.With, state: Any) -> Iterable:
        return [state]

    def handler_entry(self, handler: ast.ExceptHandler, state: Any) -> Iterable:
        return [state]

    def loop_backedge(self, loop: ast.AST, entry: set, state: Any, via: ast.AST) -> Optional[Any]:
        """Called for every state flowing back to a loop head.  Return the
        state to propagate, or None to drop it (after reporting)."""
        return state

    def nested_def(self, node: ast.AST, state: Any) -> Iterable:
        return [state]

    def may_raise(self, stmt: ast.stmt) -> bool:
        """Whether a statement inside a try body can transfer control to the
        handlers.  Default: every statement can."""
        return True

    # ---- driver ----------------------------------------------------------
    def run_function(self, fn: ast.FunctionDef, init: Iterable) -> Outcome:
        o = self.run_block(fn.body, set(init))
        # falling off the end is an implicit return
        for s in o.fall:
            o.ret.append((fn, s))
        o.fall = set()
        return o

    def run_block(self, stmts: list, states: set) -> Outcome:
        out = Outcome()
        cur = set(states)
        for st in stmts:
            if not cur:
                break
            o = self.run_stmt(st, cur)
            out.absorb_exits(o)
            cur = o.fall
            if len(cur) > MAX_STATES:
                raise AnalysisError("state explosion in flow walk")
        out.fall = cur
        return out

    def _each(self, fn, states: Iterable) -> set:
        res = set()
        for s in states:
            res.update(fn(s))
        return res

    def run_stmt(self, st: ast.stmt, states: set) -> Outcome:
        o = Outcome()
        if isinstance(st, (ast.FunctionDef, ast.AsyncFunctionDef, ast.ClassDef)):
            o.fall = self._each(lambda s: self.nested_def(st, s), states)
            return o
        if isinstance(st, ast.Return):
            for s in states:
                for s2 in (self.transfer_expr(st.value, s) if st.value is not None else [s]):
                    o.ret.append((st, s2))
            return o
        if isinstance(st, ast.Raise):
            for s in states:
                for s2 in self.transfer_expr(st, s):
                    o.rais.append((st, s2))
            return o
        if isinstance(st, ast.Continue):
            o.cont = [(st, s) for s in states]
            return o
        if isinstance(st, ast.Break):
            o.brk = set(states)
            return o
        if isinstance(st, ast.If):
            t, f = set(), set()
            for s in states:
                a, b = self._branch(st.test, s)
                t.update(a)
                f.update(b)
            ob = self.run_block(st.body, t)
            oe = self.run_block(st.orelse, f) if st.orelse else Outcome(fall=f)
            o.absorb_exits(ob)
            o.absorb_exits(oe)
            o.fall = ob.fall | oe.fall
            return o
        if isinstance(st, ast.While):
            return self._loop(st, states, is_for=False)
        if isinstance(st, (ast.For, ast.AsyncFor)):
            return self._loop(st, states, is_for=True)
        if isinstance(st, (ast.With, ast.AsyncWith)):
            ent = self._each(lambda s: self.with_enter(st, s), states)
            ob = self.run_block(st.body, ent)
            # __exit__ runs on every way out of the block
            o.fall = self._each(lambda s: self.with_exit(st, s), ob.fall)
            o.brk = self._each(lambda s: self.with_exit(st, s), ob.brk)
            o.cont = [(n, s2) for n, s in ob.cont for s2 in self.with_exit(st, s)]
            o.ret = [(n, s2) for n, s in ob.ret for s2 in self.with_exit(st, s)]
            o.rais = [(n, s2) for n, s in ob.rais for s2 in self.with_exit(st, s)]
            return o
        if isinstance(st, ast.Try):
            return self._try(st, states)
        if isinstance(st, ast.Match):
            raise AnalysisError("match statement not supported by the flow walker")
        o.fall = self._each(lambda s: self.transfer(st, s), states)
        return o

    def for_const_element(self, node: ast.For, elt: ast.AST) -> None:
        """Called before each unrolled iteration of `for x in (<literals>)`."""

    def _unrolled_for(self, st, states: set) -> Outcome:
        # `for x in (a, b, c)`: the body runs exactly once per element, in order
        o = Outcome()
        cur = self._each(lambda s: self.for_iter(st, s), states)
        broke: set = set()
        for elt in st.iter.elts:
            if not cur:
                break
            self.for_const_element(st, elt)
            t = self._each(lambda s: self.for_target(st, s), cur)
            ob = self.run_block(st.body, t)
            o.ret.extend(ob.ret)
            o.rais.extend(ob.rais)
            broke |= ob.brk
            cur = ob.fall | {s for _, s in ob.cont}
        self.for_const_element(st, None)
        after = cur
        if st.orelse:
            oe = self.run_block(st.orelse, after)
            o.absorb_exits(oe)
            after = oe.fall
        o.fall = after | broke
        return o

    def _loop(self, st, states: set, is_for: bool) -> Outcome:
        o = Outcome()
        if is_for and isinstance(st.iter, (ast.Tuple, ast.List)) and 0 < len(st.iter.elts) <= 8 \
                and not any(isinstance(e, ast.Starred) for e in st.iter.elts):
            return self._unrolled_for(st, states)
        if is_for:
            states = self._each(lambda s: self.for_iter(st, s), states)
        entry = set(states)
        head = set(states)
        exit_false: set = set()
        body_out = Outcome()
        for _ in range(MAX_ITER):
            if is_for:
                t = self._each(lambda s: self.for_target(st, s), head)
                f = set(head)
            else:
                t, f = set(), set()
                for s in head:
                    a, b = self._branch(st.test, s)
                    t.update(a)
                    f.update(b)
            body_out = self.run_block(st.body, t)
            back = set()
            for s in body_out.fall:
                s2 = self.loop_backedge(st, entry, s, st)
                if s2 is not None:
                    back.add(s2)
            for n, s in body_out.cont:
                s2 = self.loop_backedge(st, entry, s, n)
                if s2 is not None:
                    back.add(s2)
            new_head = head | back
            exit_false = f
            if new_head == head:
                break
            head = new_head
            if len(head) > MAX_STATES:
                raise AnalysisError("state explosion at loop head")
        else:
            raise AnalysisError(
                "loop at line {} did not reach a fixed point".format(getattr(st, "lineno", 0))
            )
        o.ret = body_out.ret
        o.rais = body_out.rais
        after = set(exit_false)
        if st.orelse:
            oe = self.run_block(st.orelse, after)
            o.absorb_exits(oe)
            after = oe.fall
        o.fall = after | body_out.brk
        return o

    def _try(self, st: ast.Try, states: set) -> Outcome:
        o = Outcome()
        # states from which a handler can be entered: before the body and after
        # each top-level statement of the body (an exception escapes a statement
        # either before or after its effect; both are included)
        handler_in = set(states)
        cur = set(states)
        body = Outcome()
        for b in st.body:
            if not cur:
                break
            ob = self.run_stmt(b, cur)
            body.absorb_exits(ob)
            cur = ob.fall
            if self.may_raise(b):
                handler_in |= cur
                # raise statements / nested raises inside the body
            for n, s in ob.rais:
                handler_in.add(s)
        body.fall = cur
        res = Outcome()
        res.absorb_exits(Outcome(brk=body.brk, cont=body.cont, ret=body.ret))
        handlers_fall: set = set()
        for h in st.handlers:
            hin = self._each(lambda s: self.handler_entry(h, s), handler_in)
            oh = self.run_block(h.body, hin)
            handlers_fall |= oh.fall
            res.absorb_exits(oh)
        # exceptions not matched by any handler propagate; the explicit raises
        # of the body are kept as possibly-uncaught as well
        res.rais.extend(body.rais)
        if st.orelse:
            oe = self.run_block(st.orelse, body.fall)
            res.absorb_exits(oe)
            res.fall = handlers_fall | oe.fall
        else:
            res.fall = handlers_fall | body.fall
        if st.finalbody:
            fin = Outcome()

            def through(ss: Iterable) -> Outcome:
                return self.run_block(st.finalbody, set(ss))

            of = through(res.fall)
            fin.fall = of.fall
            fin.absorb_exits(of)
            ob = through(res.brk)
            fin.brk |= ob.fall
            fin.absorb_exits(ob)
            for n, s in res.cont:
                oc = through([s])
                fin.cont.extend((n, s2) for s2 in oc.fall)
                fin.absorb_exits(oc)
            for n, s in res.ret:
                orr = through([s])
                fin.ret.extend((n, s2) for s2 in orr.fall)
                fin.absorb_exits(orr)
            for n, s in res.rais:
                ox = through([s])
                fin.rais.extend((n, s2) for s2 in ox.fall)
                fin.absorb_exits(ox)
            # an exception raised anywhere in the body with no handler also
            # runs the finally block, then propagates
            if not st.handlers:
                ox = through(handler_in)
                fin.rais.extend((st, s2) for s2 in ox.fall)
            return fin
        return res


# ---- event-order helper ---------------------------------------------------

def dominating_calls(fn: ast.FunctionDef, is_event, is_target) -> list:
    """For every statement/expr node where is_target(node) holds, report whether
    on every path from function entry to it some node with is_event(node) has
    been executed.  Returns [(target_node, dominated: bool)].  State = bool."""

    results = []

    class W(Flow):
        def transfer_expr(self, node, state):
            if node is None:
                return [state]
            # evaluation order approximated by source order within a statement
            evs = []
            for n in ast.walk(node):
                if isinstance(n, (ast.FunctionDef, ast.Lambda)) and n is not node:
                    continue
                if is_target(n):
                    evs.append((getattr(n, "lineno", 0), getattr(n, "col_offset", 0), 1, n))
                if is_event(n):
                    evs.append((getattr(n, "end_lineno", 0), getattr(n, "end_col_offset", 0), 0, n))
            evs.sort(key=lambda x: (x[0], x[1], x[2]))
            st = state
            for _, _, kind, n in evs:
                if kind == 0:
                    st = True
                else:
                    results.append((n, st))
            return [st]

    W().run_function(fn, [False])
    # a target reached in several states: dominated only if all are True
    agg: dict = {}
    for n, s in results:
        agg[n] = agg.get(n, True) and s
    return list(agg.items())
