"""E10 report layer: rule results, known-findings matching, evidence files.

Exit codes (DESIGN.md §1.3):
  0  every obligation discharged (known findings are printed, not alarmed)
  1  at least one finding that is not listed in known_findings.json
  2  ANALYSIS-ERROR: the analysis itself could not be carried out
"""

from __future__ import annotations

import hashlib
import json
import os
import time
from dataclasses import dataclass, field
from typing import Any, Optional

VERIF_DIR = os.path.dirname(os.path.dirname(os.path.dirname(os.path.abspath(__file__))))
EVIDENCE_DIR = os.environ.get("VERIF_EVIDENCE_DIR") or os.path.join(VERIF_DIR, "evidence")
KNOWN_FINDINGS = os.path.join(VERIF_DIR, "known_findings.json")


class AnalysisError(Exception):
    """The analysis cannot give a verdict (anchor vanished, unsupported
    construct, instance count below the hand-confirmed minimum, ⊤ reached at an
    obligation).  Never reported as a violation."""


@dataclass
class Finding:
    rule: str  # e.g. "C16.R1"
    file: str  # path relative to the repository root
    function: str  # qualified function name, Lua function, or table name
    construct: str  # normalised source construct (ast.unparse / token string)
    message: str
    line: int = 0
    detail: dict = field(default_factory=dict)

    def key(self) -> tuple:
        return (self.rule, self.file, self.function, self.construct)

    def as_dict(self) -> dict:
        return {
            "rule": self.rule,
            "file": self.file,
            "function": self.function,
            "construct": self.construct,
            "line": self.line,
            "message": self.message,
            "detail": self.detail,
        }


@dataclass
class RuleResult:
    rule: str
    title: str
    obligations: int = 0  # number of obligations examined
    discharged: int = 0
    findings: list = field(default_factory=list)
    samples: list = field(default_factory=list)  # a few obligations written out
    instances: dict = field(default_factory=dict)  # measured counts by name
    notes: list = field(default_factory=list)
    min_instances: int = 1  # fail closed below this many obligations
    informational: list = field(default_factory=list)
    cases: set = field(default_factory=set)  # distinct (function, construct) examined

    def ok(self, function: str, construct: str, sample: Any = None) -> None:
        self.obligations += 1
        self.discharged += 1
        self.cases.add((function, construct))
        if sample is not None and len(self.samples) < 4:
            self.samples.append(sample)

    def bad(self, finding: Finding) -> None:
        if any(f.key() == finding.key() for f in self.findings):
            return  # the same construct reached in several abstract states
        self.obligations += 1
        self.cases.add((finding.function, finding.construct))
        self.findings.append(finding)


def _load_known() -> list:
    if not os.path.exists(KNOWN_FINDINGS):
        return []
    with open(KNOWN_FINDINGS, encoding="utf-8") as f:
        data = json.load(f)
    return data.get("findings", [])


def _match_known(f: Finding, known: list) -> Optional[dict]:
    for k in known:
        if k.get("status") != "known":
            continue  # "fixed" entries suppress nothing
        kk = k.get("key", {})
        if (
            k.get("rule") == f.rule
            and kk.get("file") == f.file
            and kk.get("function") == f.function
            and kk.get("construct") == f.construct
        ):
            return k
    return None


def finish(
    property_id: str,
    tier: str,
    seed: int,
    results: list,
    started: float,
    explanation: str,
    assumptions: list,
    extra: Optional[dict] = None,
) -> int:
    """Print the verdict, write evidence/<id>.json, return the exit code."""
    known = _load_known()
    violations = []
    known_hits = []
    consumed: set = set()
    pending = []
    for r in results:
        for f in r.findings:
            k = _match_known(f, known)
            if k is not None:
                known_hits.append((f, k))
                consumed.add(id(k))
            else:
                pending.append(f)
    # A recorded construct that a refactoring moved to another function of the same file (a closure lifted to module level
    # and renamed) is still the recorded finding: an entry not matched exactly may match once by rule + file + construct.
    # Every entry is used at most once, so an additional site with the same construct is reported.
    for f in pending:
        k = next((k_ for k_ in known if k_.get("status") == "known" and id(k_) not in consumed and k_.get("rule") == f.rule
                  and k_.get("key", {}).get("file") == f.file and k_.get("key", {}).get("construct") == f.construct), None)
        if k is not None:
            known_hits.append((f, k))
            consumed.add(id(k))
        else:
            violations.append(f)
    # fail closed on vacuous rules
    vacuous = [r for r in results if r.obligations < r.min_instances]

    os.makedirs(os.path.join(EVIDENCE_DIR, "violations"), exist_ok=True)
    for f, k in known_hits:
        print(
            "KNOWN-FINDING: property={} rule={} {}:{} {} -- {}".format(
                property_id, f.rule, f.file, f.function, f.construct, f.message
            )
        )
    vio_paths = []
    for f in violations:
        h = hashlib.sha1(repr(f.key()).encode()).hexdigest()[:10]
        p = os.path.join(
            EVIDENCE_DIR, "violations", "{}-{}-{}.json".format(property_id, f.rule.split(".")[-1], h)
        )
        with open(p, "w", encoding="utf-8") as fh:
            json.dump({"property": property_id, **f.as_dict()}, fh, indent=1, ensure_ascii=False)
        vio_paths.append(p)
        print("  {} {}:{} [{}] {}".format(f.rule, f.file, f.line, f.function, f.message))
        print("     construct: {}".format(f.construct))
        print("VIOLATION property={} replay={}".format(property_id, p))

    obligations = sum(r.obligations for r in results)
    discharged = sum(r.discharged for r in results) + len(known_hits)
    distinct = set()
    for r in results:
        for c in r.cases:
            distinct.add((r.rule,) + tuple(c))
    samples = []
    for r in results:
        for s in r.samples[:3]:
            samples.append({"rule": r.rule, "obligation": s})
    coverage = {
        "explanation": explanation,
        "evaluations": obligations,
        "distinct_nontrivial": len(distinct),
        "rule": "one evaluation = one obligation instance of a rule decided on the parsed "
        "source (a call site, path exit, table entry, regex inclusion, truth-table row); "
        "distinct = distinct (rule, function, construct) triples",
        "obligations": obligations,
        "discharged": discharged,
        "samples": samples or [{"note": "no obligations"}],
        "rules": [
            {
                "rule": r.rule,
                "title": r.title,
                "obligations": r.obligations,
                "discharged": r.discharged,
                "findings": len(r.findings),
                "min_instances": r.min_instances,
                "instances": r.instances,
                "notes": r.notes,
                "informational": r.informational[:20],
                "inconclusive": getattr(r, "error", None),
            }
            for r in results
        ],
        "known_findings_matched": [
            {"rule": f.rule, "file": f.file, "function": f.function, "construct": f.construct}
            for f, _ in known_hits
        ],
        "exhaustive": False,
    }
    if extra:
        coverage.update(extra)
    ev = {
        "property_id": property_id,
        "tier": tier,
        "seed": seed,
        "level": "other",
        "coverage": coverage,
        "assumptions": assumptions,
        "wall_s": round(time.time() - started, 3),
        "violations": len(violations),
    }
    os.makedirs(EVIDENCE_DIR, exist_ok=True)
    with open(os.path.join(EVIDENCE_DIR, property_id + ".json"), "w", encoding="utf-8") as fh:
        json.dump(ev, fh, indent=1, ensure_ascii=False)
        fh.write("\n")

    for r in results:
        print(
            "{:8s} {:3d}/{:3d} obligations discharged  {}".format(
                r.rule, r.discharged + sum(1 for f, _ in known_hits if f.rule == r.rule), r.obligations, r.title
            )
        )
    inconclusive = [r for r in results if getattr(r, "error", None)]
    for r in inconclusive:
        print("INCONCLUSIVE property={} rule={} {}".format(property_id, r.rule, r.error))
    if violations:
        return 1
    if inconclusive:
        print("ANALYSIS-ERROR property={} {}".format(property_id, inconclusive[0].error))
        return 2
    vacuous = [r for r in vacuous if not getattr(r, "error", None)]
    if vacuous:
        for r in vacuous:
            print(
                "ANALYSIS-ERROR property={} rule={} matched {} instance(s), fewer than the "
                "{} confirmed by hand -- the rule no longer sees its anchors".format(
                    property_id, r.rule, r.obligations, r.min_instances
                )
            )
        return 2
    print("OK property={} tier={} obligations={} known_findings={}".format(
        property_id, tier, obligations, len(known_hits)))
    return 0


def shared(r: "RuleResult", new_id: str, title: str, consequence: str = "", min_instances: int = 1, only=None) -> "RuleResult":
    """Re-issue the verdict of a rule under another property's id (one structural fact can be a
    necessary condition of several properties).  `only(finding_or_case_function)` restricts it."""
    rr = RuleResult(new_id, title, min_instances=min_instances)
    for f in r.findings:
        if only is None or only(f.function):
            rr.bad(Finding(new_id, f.file, f.function, f.construct, f.message + (("; " + consequence) if consequence else ""), f.line))
    cases = {c for c in r.cases if only is None or only(c[0])}
    rr.cases = cases
    rr.obligations = len(cases)
    rr.discharged = len(cases) - len(rr.findings)
    rr.samples = list(r.samples)
    return rr


def guard_rules(module) -> None:
    """Wrap every rule function of a property module so that an AnalysisError raised by one rule makes
    *that rule* inconclusive instead of aborting the whole property: a definite violation found by
    another rule is still reported (exit 1); with no violation an inconclusive rule gives exit 2."""
    import functools

    for name in list(vars(module)):
        fn = getattr(module, name)
        if not callable(fn) or not (name.startswith("rule_") or name in ("paired_counter_findings",)) or getattr(fn, "_guarded", False):
            continue

        def make(fn=fn, name=name):
            @functools.wraps(fn)
            def wrapper(*a, **kw):
                try:
                    return fn(*a, **kw)
                except AnalysisError as e:
                    pid = module.__name__.rsplit(".", 1)[-1].upper()
                    rid = "{}.{}".format(pid, name.replace("rule_r", "R").replace("rule_", ""))
                    rr = RuleResult(rid, "(inconclusive) " + (fn.__doc__ or name).strip().split("\n")[0][:80], min_instances=0)
                    rr.error = str(e)
                    return rr
            wrapper._guarded = True
            return wrapper

        setattr(module, name, make())
