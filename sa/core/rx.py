"""E5 regex toolkit on re._parser syntax trees.

  nullable(pattern)                     can the pattern match the empty string
  Automaton(pattern)                    Thompson NFA over a computed partition of
                                        the alphabet; \\b / \\B handled by carrying
                                        "previous character is a word character"
                                        and a pending constraint on the next one
  included_in_prefix(A, B)              L(A) subset of L(B).Sigma*  (what re.match(B, t)
                                        accepts for a token t matched in full by A);
                                        returns None or a shortest counterexample
  charclass(items) / class algebra      membership predicates for [...] classes

Unsupported constructs (back-references, look-around, conditional groups) raise
Unsupported; the caller turns that into ANALYSIS-ERROR for that obligation only.
"""

from __future__ import annotations

import re
import sys
import unicodedata
from collections import deque

import re._parser as sre_parse
import re._constants as C

from .report import AnalysisError


class Unsupported(AnalysisError):
    pass


def parse(pattern: str, flags: int = 0):
    try:
        return sre_parse.parse(pattern, flags)
    except Exception as e:  # noqa: BLE001
        raise AnalysisError("unparsable regex {!r}: {}".format(pattern, e))


# ---------------------------------------------------------------- nullability
def nullable_items(items) -> bool:
    for op, av in items:
        if op in (C.LITERAL, C.NOT_LITERAL, C.ANY, C.IN):
            return False
        if op is C.BRANCH:
            if not any(nullable_items(alt) for alt in av[1]):
                return False
        elif op is C.SUBPATTERN:
            if not nullable_items(av[3]):
                return False
        elif op in (C.MAX_REPEAT, C.MIN_REPEAT, C.POSSESSIVE_REPEAT):
            lo, hi, sub = av
            if lo > 0 and not nullable_items(sub):
                return False
        elif op in (C.AT, C.ASSERT, C.ASSERT_NOT):
            continue
        elif op is C.GROUPREF:
            raise Unsupported("back-reference")
        elif op is C.ATOMIC_GROUP:
            if not nullable_items(av):
                return False
        else:
            raise Unsupported("regex node {}".format(op))
    return True


def nullable(pattern: str, flags: int = 0) -> bool:
    return nullable_items(parse(pattern, flags))


# ---------------------------------------------------------------- character predicates
def _is_word(ch: str) -> bool:
    return ch.isalnum() or ch == "_"


def _category(cat, ch: str) -> bool:
    if cat is C.CATEGORY_DIGIT:
        return ch.isdecimal() or unicodedata.category(ch) == "Nd"
    if cat is C.CATEGORY_NOT_DIGIT:
        return not _category(C.CATEGORY_DIGIT, ch)
    if cat is C.CATEGORY_SPACE:
        return ch.isspace() or ch in "\x1c\x1d\x1e\x1f"
    if cat is C.CATEGORY_NOT_SPACE:
        return not _category(C.CATEGORY_SPACE, ch)
    if cat is C.CATEGORY_WORD:
        return _is_word(ch)
    if cat is C.CATEGORY_NOT_WORD:
        return not _is_word(ch)
    raise Unsupported("category {}".format(cat))


class Pred:
    """A character predicate derived from one regex atom."""

    __slots__ = ("kind", "data", "icase", "dotall")

    def __init__(self, kind, data=None, icase=False, dotall=False):
        self.kind, self.data, self.icase, self.dotall = kind, data, icase, dotall

    def test(self, ch: str) -> bool:
        k = self.kind
        if k == "lit":
            return ch == self.data or (self.icase and ch.lower() == self.data.lower())
        if k == "notlit":
            return not (ch == self.data or (self.icase and ch.lower() == self.data.lower()))
        if k == "any":
            return self.dotall or ch != "\n"
        if k == "in":
            neg, items = self.data
            r = False
            for it in items:
                if it[0] == "lit":
                    if ch == it[1] or (self.icase and ch.lower() == it[1].lower()):
                        r = True
                elif it[0] == "range":
                    lo, hi = it[1]
                    if lo <= ord(ch) <= hi:
                        r = True
                    elif self.icase and any(len(x) == 1 and lo <= ord(x) <= hi for x in (ch.lower(), ch.upper())):
                        r = True
                elif it[0] == "cat":
                    if _category(it[1], ch):
                        r = True
                if r:
                    break
            return r != neg
        raise Unsupported(k)

    def chars(self):
        """characters mentioned explicitly (for building the alphabet sample)"""
        if self.kind in ("lit", "notlit"):
            yield self.data
        elif self.kind == "in":
            for it in self.data[1]:
                if it[0] == "lit":
                    yield it[1]
                elif it[0] == "range":
                    for cp in (it[1][0] - 1, it[1][0], it[1][0] + 1, it[1][1] - 1, it[1][1], it[1][1] + 1):
                        if 0 <= cp < sys.maxunicode:
                            yield chr(cp)


def in_pred(av, icase=False) -> Pred:
    neg = False
    items = []
    for op, x in av:
        if op is C.NEGATE:
            neg = True
        elif op is C.LITERAL:
            items.append(("lit", chr(x)))
        elif op is C.RANGE:
            items.append(("range", (x[0], x[1])))
        elif op is C.CATEGORY:
            items.append(("cat", x))
        else:
            raise Unsupported("class item {}".format(op))
    return Pred("in", (neg, items), icase)


# ---------------------------------------------------------------- NFA
class NFA:
    def __init__(self):
        self.n = 0
        self.eps: dict = {}  # state -> list of (kind, target); kind in None/'b'/'B'/'^'/'$'
        self.sym: dict = {}  # state -> list of (pred_index, target)
        self.preds: list = []
        self.start = self.new()
        self.accept = None

    def new(self) -> int:
        s = self.n
        self.n += 1
        self.eps[s] = []
        self.sym[s] = []
        return s

    def add_eps(self, a, b, kind=None):
        self.eps[a].append((kind, b))

    def add_sym(self, a, pred: Pred, b):
        self.preds.append(pred)
        self.sym[a].append((len(self.preds) - 1, b))


def build(pattern, flags: int = 0, items=None) -> NFA:
    """pattern: regex source; or pass items=<list of parsed items> with flags"""
    if items is None:
        tree = parse(pattern, flags)
        fl = tree.state.flags
    else:
        tree = items
        fl = flags
    icase = bool(fl & re.IGNORECASE)
    dotall = bool(fl & re.DOTALL)
    if fl & re.MULTILINE:
        raise Unsupported("MULTILINE anchors")
    nfa = NFA()

    def seq(items, s):
        for it in items:
            s = one(it, s)
        return s

    def one(it, s):
        op, av = it
        if op is C.LITERAL:
            t = nfa.new()
            nfa.add_sym(s, Pred("lit", chr(av), icase), t)
            return t
        if op is C.NOT_LITERAL:
            t = nfa.new()
            nfa.add_sym(s, Pred("notlit", chr(av), icase), t)
            return t
        if op is C.ANY:
            t = nfa.new()
            nfa.add_sym(s, Pred("any", None, icase, dotall), t)
            return t
        if op is C.IN:
            t = nfa.new()
            nfa.add_sym(s, in_pred(av, icase), t)
            return t
        if op is C.BRANCH:
            t = nfa.new()
            for alt in av[1]:
                a = nfa.new()
                nfa.add_eps(s, a)
                e = seq(alt, a)
                nfa.add_eps(e, t)
            return t
        if op is C.SUBPATTERN:
            return seq(av[3], s)
        if op is C.ATOMIC_GROUP:
            raise Unsupported("atomic group")
        if op in (C.MAX_REPEAT, C.MIN_REPEAT):
            lo, hi, sub = av
            cur = s
            for _ in range(lo):
                cur = seq(sub, cur)
            if hi == C.MAXREPEAT:
                loop = nfa.new()
                nfa.add_eps(cur, loop)
                e = seq(sub, loop)
                nfa.add_eps(e, loop)
                out = nfa.new()
                nfa.add_eps(loop, out)
                return out
            if hi - lo > 64:
                raise Unsupported("large bounded repeat")
            out = nfa.new()
            nfa.add_eps(cur, out)
            for _ in range(hi - lo):
                cur = seq(sub, cur)
                nfa.add_eps(cur, out)
            return out
        if op is C.AT:
            t = nfa.new()
            kind = {C.AT_BOUNDARY: "b", C.AT_NON_BOUNDARY: "B", C.AT_BEGINNING: "^", C.AT_BEGINNING_STRING: "^",
                    C.AT_END: "$", C.AT_END_STRING: "$"}.get(av)
            if kind is None:
                raise Unsupported("anchor {}".format(av))
            nfa.add_eps(s, t, kind)
            return t
        if op in (C.ASSERT, C.ASSERT_NOT):
            raise Unsupported("look-around")
        if op is C.GROUPREF:
            raise Unsupported("back-reference")
        raise Unsupported("regex node {}".format(op))

    nfa.accept = seq(list(tree), nfa.start)
    return nfa


# configurations: (state, prev_word, pending) ; prev_word in (None=start, True, False); pending in (None,'w','nw','end')
def _closure(nfa: NFA, configs) -> frozenset:
    seen = set(configs)
    stack = list(configs)
    while stack:
        q, pw, pend = stack.pop()
        for kind, t in nfa.eps[q]:
            npend = pend
            if kind is None:
                pass
            elif kind in ("b", "B"):
                prevw = bool(pw)
                # boundary: next wordness != prev wordness
                want_next_word = (not prevw) if kind == "b" else prevw
                c = "w" if want_next_word else "nw"
                if pend is None:
                    npend = c
                elif pend == "end":
                    if c == "w":
                        continue
                    npend = "end"
                elif pend != c:
                    continue
            elif kind == "^":
                if pw is not None:
                    continue
            elif kind == "$":
                if pend == "w":
                    continue
                npend = "end"
            cfg = (t, pw, npend)
            if cfg not in seen:
                seen.add(cfg)
                stack.append(cfg)
    return frozenset(seen)


def _step(nfa: NFA, configs, sym_bits, sym_word: bool) -> frozenset:
    """sym_bits: tuple of bools, one per nfa.preds"""
    out = set()
    for q, pw, pend in configs:
        if pend == "end":
            continue
        if pend == "w" and not sym_word:
            continue
        if pend == "nw" and sym_word:
            continue
        for pi, t in nfa.sym[q]:
            if sym_bits[pi]:
                out.add((t, sym_word, None))
    return _closure(nfa, out)


def _accepting_at_end(nfa: NFA, configs) -> bool:
    return any(q == nfa.accept and pend in (None, "nw", "end") for q, pw, pend in configs)


def _alphabet(nfas, thorough: bool):
    """[(representative char, is_word, [bits per nfa])] -- one entry per
    equivalence class of characters w.r.t. every predicate of every automaton"""
    sample = set()
    for cp in range(0, 0x250):
        sample.add(chr(cp))
    for ch in "٣  éßЖ中€​\U0010203d\U0010203e\U00102041\U0010fff0\U0010ffff ٠１²①":
        sample.add(ch)
    for nfa in nfas:
        for p in nfa.preds:
            for ch in p.chars():
                sample.add(ch)
    if thorough:
        universe = (chr(cp) for cp in range(sys.maxunicode + 1) if not (0xD800 <= cp <= 0xDFFF))
    else:
        universe = sorted(sample)
    classes: dict = {}
    for ch in universe:
        sig = (_is_word(ch),) + tuple(tuple(p.test(ch) for p in nfa.preds) for nfa in nfas)
        if sig not in classes:
            classes[sig] = ch
    out = []
    for sig, ch in classes.items():
        out.append((ch, sig[0], list(sig[1:])))
    return out


def included_in_prefix(pat_a, pat_b, thorough: bool = False, flags_a: int = 0, flags_b: int = 0,
                       items_a=None, items_b=None, full: bool = False, allowed=None):
    """None if every string matched in full by A has a prefix matched by B
    (i.e. re.match(B, s) succeeds); else a shortest counterexample string.
    full=True: B must match the whole string (re.fullmatch).  allowed: optional
    predicate restricting the alphabet of A's words."""
    A, B = build(pat_a, flags_a, items_a), build(pat_b, flags_b, items_b)
    alpha = _alphabet([A, B], thorough)
    if allowed is not None:
        # split classes by the predicate using every sampled character again
        alpha = _alphabet_restricted([A, B], thorough, allowed)
    a0 = _closure(A, {(A.start, None, None)})
    b0 = _closure(B, {(B.start, None, None)})

    def b_sat_now(bset) -> bool:
        if full:
            return False
        return any(q == B.accept and pend is None for q, pw, pend in bset)

    start = (a0, b0, b_sat_now(b0))
    seen = {start}
    dq = deque([(start, "")])
    stats = {"states": 0, "alphabet_classes": len(alpha)}
    while dq:
        (aset, bset, sat), word = dq.popleft()
        stats["states"] += 1
        if not sat and _accepting_at_end(A, aset) and not _accepting_at_end(B, bset):
            included_in_prefix.last_stats = stats
            return word
        if stats["states"] > 200000:
            raise AnalysisError("regex inclusion: state explosion")
        for ch, is_w, bits in alpha:
            na = _step(A, aset, bits[0], is_w)
            if not na:
                continue
            if sat:
                nb, nsat = frozenset(), True
            else:
                # B accepts a prefix ending here if an accept config's pending is satisfied by this next char
                pre = (not full) and any(q == B.accept and ((pend == "w" and is_w) or (pend == "nw" and not is_w)) for q, pw, pend in bset)
                nb = _step(B, bset, bits[1], is_w)
                nsat = pre or b_sat_now(nb)
                if nsat:
                    nb = frozenset()
            st = (na, nb, nsat)
            if st not in seen:
                seen.add(st)
                dq.append((st, word + ch))
    included_in_prefix.last_stats = stats
    return None


included_in_prefix.last_stats = {}


def _alphabet_restricted(nfas, thorough: bool, allowed):
    sample = set(chr(cp) for cp in range(0, 0x250))
    for nfa in nfas:
        for p in nfa.preds:
            sample.update(p.chars())
    universe = (chr(cp) for cp in range(sys.maxunicode + 1) if not (0xD800 <= cp <= 0xDFFF)) if thorough else sorted(sample)
    classes: dict = {}
    for ch in universe:
        if not allowed(ch):
            continue
        sig = (_is_word(ch),) + tuple(tuple(p.test(ch) for p in nfa.preds) for nfa in nfas)
        classes.setdefault(sig, ch)
    return [(ch, sig[0], list(sig[1:])) for sig, ch in classes.items()]


def find_alternative(items, pred):
    """first top-level item satisfying pred (op, av)"""
    for it in items:
        if pred(it):
            return it
    return None


def class_members(pattern_items, universe: str) -> dict:
    """{char: accepted} for a single [...] class item list"""
    p = in_pred(pattern_items)
    return {ch: p.test(ch) for ch in universe}
