"""E6 decision-skeleton evaluator.

A branch condition that touches its operands only through comparisons,
membership tests and `is None` is a boolean function of a handful of atoms.
The client supplies `atom_of(expr) -> (name, negated) | None`; this module
interprets the *extracted AST* of a statement list under a total valuation of
the atoms with its own evaluator for and/or/not.  Tests that contain no known
atom are explored both ways (the outcome set then shows whether the decision
is a function of the atoms).  Nothing of the analysed program is executed.
"""

from __future__ import annotations

import ast
from typing import Callable, Optional

from .report import AnalysisError


class Unknown(Exception):
    pass


class Skeleton:
    def __init__(self, atom_of: Callable, event_of: Optional[Callable] = None):
        self.atom_of = atom_of
        self.event_of = event_of or (lambda call: None)
        self.unknown_tests: set = set()

    # ---- expressions ----
    @staticmethod
    def _local(ev: tuple, name: str):
        """what the path so far stored in local `name`: "none", "some" (definitely not None) or None (unknown)"""
        for x in reversed(ev):
            if isinstance(x, tuple) and len(x) == 3 and x[0] == "$" and x[1] == name:
                return x[2]
        return None

    def eval(self, e: ast.AST, val: dict, ev: tuple = ()):
        a = self.atom_of(e)
        if a is not None:
            name, neg = a
            if name not in val:
                raise AnalysisError("atom {} has no value".format(name))
            return (not val[name]) if neg else val[name]
        if isinstance(e, ast.BoolOp):
            if isinstance(e.op, ast.And):
                for x in e.values:
                    if not self.eval(x, val, ev):
                        return False
                return True
            for x in e.values:
                if self.eval(x, val, ev):
                    return True
            return False
        if isinstance(e, ast.UnaryOp) and isinstance(e.op, ast.Not):
            return not self.eval(e.operand, val, ev)
        # a local that this path set to None / to a display: `x is None`, `x is not None`
        if isinstance(e, ast.Compare) and len(e.ops) == 1 and isinstance(e.left, ast.Name) and isinstance(e.ops[0], (ast.Is, ast.IsNot)) \
                and isinstance(e.comparators[0], ast.Constant) and e.comparators[0].value is None:
            k = self._local(ev, e.left.id)
            if k is not None:
                return (k == "none") == isinstance(e.ops[0], ast.Is)
        if isinstance(e, ast.Constant) and isinstance(e.value, bool):
            return e.value
        raise Unknown(ast.unparse(e))

    # ---- statements ----
    def run(self, stmts: list, val: dict, events: tuple = ()) -> set:
        """set of outcomes: (kind, value, events) with kind in fall/continue/break/return/raise"""
        outs = set()
        cur = {events}
        for st in stmts:
            nxt = set()
            for ev in cur:
                for o in self._stmt(st, val, ev):
                    if o[0] == "fall":
                        nxt.add(o[2])
                    else:
                        outs.add(o)
            cur = nxt
            if not cur:
                break
        for ev in cur:
            outs.add(("fall", None, ev))
        return outs

    def _events(self, node: ast.AST, ev: tuple) -> tuple:
        calls = [n for n in ast.walk(node) if isinstance(n, ast.Call)]
        calls.sort(key=lambda n: (n.end_lineno, n.end_col_offset))
        for c in calls:
            e = self.event_of(c)
            if e is not None:
                ev = ev + (e,)
        return ev

    def _stmt(self, st: ast.stmt, val: dict, ev: tuple) -> set:
        if isinstance(st, ast.If):
            ev2 = self._events(st.test, ev)
            try:
                branches = [bool(self.eval(st.test, val, ev))]
            except Unknown as u:
                self.unknown_tests.add(str(u))
                branches = [True, False]
            out = set()
            for b in branches:
                out |= self.run(st.body if b else st.orelse, val, ev2)
            return out
        if isinstance(st, ast.Return):
            ev2 = self._events(st, ev) if st.value is not None else ev
            if st.value is None:
                return {("return", None, ev2)}
            try:
                return {("return", bool(self.eval(st.value, val, ev)), ev2)}
            except Unknown:
                return {("return", "?" + ast.unparse(st.value), ev2)}
        if isinstance(st, ast.Continue):
            return {("continue", None, ev)}
        if isinstance(st, ast.Break):
            return {("break", None, ev)}
        if isinstance(st, ast.Raise):
            return {("raise", None, ev)}
        if isinstance(st, ast.Try) and st.finalbody and not st.handlers:
            # try/finally: the body decides, the finally block runs on every way out (its events are added, its own exits
            # would override -- outside the fragment)
            for n in ast.walk(ast.Module(body=st.finalbody, type_ignores=[])):
                if isinstance(n, (ast.Return, ast.Continue, ast.Break, ast.Raise)):
                    raise AnalysisError("decision skeleton: control flow inside a finally block at line {}".format(st.lineno))
            out = set()
            for kind, value, ev2 in self.run(st.body + st.orelse, val, ev):
                ev3 = ev2
                for b in st.finalbody:
                    ev3 = self._events(b, ev3)
                out.add((kind, value, ev3))
            return out
        if isinstance(st, (ast.For, ast.While, ast.Try, ast.With, ast.Match)):
            # nested compound statements: events inside count, control flow inside is
            # not interpreted (outside the supported fragment if it contains exits)
            for n in ast.walk(st):
                if isinstance(n, (ast.Return, ast.Continue, ast.Break)) and n is not st:
                    raise AnalysisError("decision skeleton contains control flow inside a nested {} at line {}".format(
                        type(st).__name__, st.lineno))
            return {("fall", None, self._events(st, ev))}
        ev2 = self._events(st, ev)
        if isinstance(st, (ast.Assign, ast.AnnAssign)):
            tgts = st.targets if isinstance(st, ast.Assign) else [st.target]
            v = st.value
            for t in tgts:
                for nm in ([t] if isinstance(t, ast.Name) else [x for x in ast.walk(t) if isinstance(x, ast.Name)]):
                    if isinstance(t, ast.Name) and isinstance(v, ast.Constant) and v.value is None:
                        k = "none"
                    elif isinstance(t, ast.Name) and (isinstance(v, (ast.Tuple, ast.List, ast.Dict, ast.Set, ast.JoinedStr))
                                                      or (isinstance(v, ast.Constant) and v.value is not None)):
                        k = "some"
                    else:
                        k = None
                    if k is not None or self._local(ev2, nm.id) is not None:
                        ev2 = ev2 + (("$", nm.id, k),)
        return {("fall", None, ev2)}


def valuations(atoms: list):
    n = len(atoms)
    for bits in range(1 << n):
        yield {a: bool(bits >> i & 1) for i, a in enumerate(atoms)}
