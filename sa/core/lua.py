"""E7 Lua front end: a hand-written Lua 5.1 lexer and recursive-descent parser,
scope resolution (local / upvalue / global), and the facts the C06-C09 rules
need: what is assigned to which table field, where a value originates (through
local aliases), and which host capabilities a function body touches.

Only the shipped sandbox sources are analysed; nothing is executed.
"""

from __future__ import annotations

import os
import re
from typing import Optional

from .report import AnalysisError

KEYWORDS = {
    "and", "break", "do", "else", "elseif", "end", "false", "for", "function", "if", "in", "local", "nil",
    "not", "or", "repeat", "return", "then", "true", "until", "while",
}


class LuaSyntaxError(AnalysisError):
    pass


class Tok:
    __slots__ = ("kind", "val", "line")

    def __init__(self, kind, val, line):
        self.kind, self.val, self.line = kind, val, line

    def __repr__(self):
        return "{}:{!r}@{}".format(self.kind, self.val, self.line)


def lex(src: str, fname: str = "?") -> list:
    toks = []
    i, n, line = 0, len(src), 1
    while i < n:
        c = src[i]
        if c == "\n":
            line += 1
            i += 1
            continue
        if c in " \t\r":
            i += 1
            continue
        if src.startswith("--", i):
            m = re.match(r"--\[(=*)\[", src[i:])
            if m:
                close = "]" + m.group(1) + "]"
                j = src.find(close, i)
                if j < 0:
                    raise LuaSyntaxError("{}:{}: unterminated long comment".format(fname, line))
                line += src.count("\n", i, j)
                i = j + len(close)
            else:
                j = src.find("\n", i)
                i = n if j < 0 else j
            continue
        m = re.match(r"\[(=*)\[", src[i:])
        if m:
            close = "]" + m.group(1) + "]"
            start = i + len(m.group(0))
            j = src.find(close, start)
            if j < 0:
                raise LuaSyntaxError("{}:{}: unterminated long string".format(fname, line))
            s = src[start:j]
            if s.startswith("\n"):
                s = s[1:]
            toks.append(Tok("string", s, line))
            line += src.count("\n", i, j)
            i = j + len(close)
            continue
        if c in "\"'":
            j = i + 1
            buf = []
            while j < n and src[j] != c:
                if src[j] == "\\":
                    nx = src[j + 1]
                    esc = {"n": "\n", "t": "\t", "r": "\r", "\\": "\\", '"': '"', "'": "'", "a": "\a", "b": "\b", "f": "\f", "v": "\v", "\n": "\n"}
                    if nx in esc:
                        buf.append(esc[nx])
                        j += 2
                    elif nx.isdigit():
                        m2 = re.match(r"\d{1,3}", src[j + 1:])
                        buf.append(chr(int(m2.group(0))))
                        j += 1 + len(m2.group(0))
                    else:
                        buf.append(nx)
                        j += 2
                else:
                    if src[j] == "\n":
                        raise LuaSyntaxError("{}:{}: unterminated string".format(fname, line))
                    buf.append(src[j])
                    j += 1
            toks.append(Tok("string", "".join(buf), line))
            i = j + 1
            continue
        m = re.match(r"0[xX][0-9a-fA-F]+|\d+\.?\d*(?:[eE][+-]?\d+)?|\.\d+(?:[eE][+-]?\d+)?", src[i:])
        if m and (c.isdigit() or (c == "." and i + 1 < n and src[i + 1].isdigit())):
            toks.append(Tok("number", m.group(0), line))
            i += len(m.group(0))
            continue
        m = re.match(r"[A-Za-z_][A-Za-z_0-9]*", src[i:])
        if m:
            w = m.group(0)
            toks.append(Tok("kw" if w in KEYWORDS else "name", w, line))
            i += len(w)
            continue
        for op in ("...", "..", "==", "~=", "<=", ">=", "+", "-", "*", "/", "%", "^", "#", "<", ">", "=", "(", ")", "{", "}", "[", "]", ";", ":", ",", "."):
            if src.startswith(op, i):
                toks.append(Tok("op", op, line))
                i += len(op)
                break
        else:
            raise LuaSyntaxError("{}:{}: unexpected character {!r}".format(fname, line, c))
    toks.append(Tok("eof", None, line))
    return toks


class N:
    """AST node: kind + attributes."""

    def __init__(self, kind, line, **kw):
        self.kind = kind
        self.line = line
        self.__dict__.update(kw)

    def __repr__(self):
        return "<{}@{}>".format(self.kind, self.line)


BINPRI = {
    "or": (1, 1), "and": (2, 2), "<": (3, 3), ">": (3, 3), "<=": (3, 3), ">=": (3, 3), "~=": (3, 3), "==": (3, 3),
    "..": (5, 4), "+": (6, 6), "-": (6, 6), "*": (7, 7), "/": (7, 7), "%": (7, 7), "^": (10, 9),
}
UNARY_PRI = 8


class Parser:
    def __init__(self, src: str, fname: str):
        self.fname = fname
        self.toks = lex(src, fname)
        self.p = 0

    # ---- helpers ----
    @property
    def t(self):
        return self.toks[self.p]

    def err(self, msg):
        raise LuaSyntaxError("{}:{}: {} (at {!r})".format(self.fname, self.t.line, msg, self.t.val))

    def check(self, kind, val=None):
        return self.t.kind == kind and (val is None or self.t.val == val)

    def accept(self, kind, val=None):
        if self.check(kind, val):
            self.p += 1
            return self.toks[self.p - 1]
        return None

    def expect(self, kind, val=None):
        tk = self.accept(kind, val)
        if tk is None:
            self.err("expected {} {!r}".format(kind, val))
        return tk

    # ---- grammar ----
    def chunk(self):
        b = self.block()
        self.expect("eof")
        return N("chunk", 1, body=b, file=self.fname)

    def block_end(self):
        return self.t.kind == "eof" or (self.t.kind == "kw" and self.t.val in ("end", "else", "elseif", "until"))

    def block(self):
        stmts = []
        while not self.block_end():
            if self.check("kw", "return"):
                ln = self.t.line
                self.p += 1
                exprs = []
                if not self.block_end() and not self.check("op", ";"):
                    exprs = self.exprlist()
                self.accept("op", ";")
                stmts.append(N("return", ln, exprs=exprs))
                break
            if self.check("kw", "break"):
                stmts.append(N("break", self.t.line))
                self.p += 1
                self.accept("op", ";")
                break
            st = self.statement()
            if st is not None:
                stmts.append(st)
            self.accept("op", ";")
        return stmts

    def statement(self):
        t = self.t
        ln = t.line
        if t.kind == "kw":
            if t.val == "if":
                self.p += 1
                clauses = []
                cond = self.expr()
                self.expect("kw", "then")
                clauses.append((cond, self.block()))
                orelse = None
                while True:
                    if self.accept("kw", "elseif"):
                        c = self.expr()
                        self.expect("kw", "then")
                        clauses.append((c, self.block()))
                    elif self.accept("kw", "else"):
                        orelse = self.block()
                        self.expect("kw", "end")
                        break
                    else:
                        self.expect("kw", "end")
                        break
                return N("if", ln, clauses=clauses, orelse=orelse)
            if t.val == "while":
                self.p += 1
                c = self.expr()
                self.expect("kw", "do")
                b = self.block()
                self.expect("kw", "end")
                return N("while", ln, cond=c, body=b)
            if t.val == "do":
                self.p += 1
                b = self.block()
                self.expect("kw", "end")
                return N("do", ln, body=b)
            if t.val == "for":
                self.p += 1
                n1 = self.expect("name").val
                if self.accept("op", "="):
                    a = self.expr()
                    self.expect("op", ",")
                    b = self.expr()
                    c = self.expr() if self.accept("op", ",") else None
                    self.expect("kw", "do")
                    body = self.block()
                    self.expect("kw", "end")
                    return N("fornum", ln, var=n1, start=a, stop=b, step=c, body=body)
                names = [n1]
                while self.accept("op", ","):
                    names.append(self.expect("name").val)
                self.expect("kw", "in")
                exprs = self.exprlist()
                self.expect("kw", "do")
                body = self.block()
                self.expect("kw", "end")
                return N("forin", ln, names=names, exprs=exprs, body=body)
            if t.val == "repeat":
                self.p += 1
                b = self.block()
                self.expect("kw", "until")
                c = self.expr()
                return N("repeat", ln, body=b, cond=c)
            if t.val == "function":
                self.p += 1
                target = N("name", ln, id=self.expect("name").val)
                is_method = False
                while self.check("op", ".") or self.check("op", ":"):
                    op = self.t.val
                    self.p += 1
                    key = self.expect("name").val
                    target = N("index", ln, obj=target, key=N("string", ln, value=key))
                    if op == ":":
                        is_method = True
                        break
                fn = self.funcbody(ln, is_method)
                fn.name = _target_text(target)
                return N("assign", ln, targets=[target], exprs=[fn], is_funcstat=True)
            if t.val == "local":
                self.p += 1
                if self.accept("kw", "function"):
                    name = self.expect("name").val
                    fn = self.funcbody(ln, False)
                    fn.name = name
                    return N("localfunction", ln, name=name, func=fn)
                names = [self.expect("name").val]
                while self.accept("op", ","):
                    names.append(self.expect("name").val)
                exprs = self.exprlist() if self.accept("op", "=") else []
                return N("local", ln, names=names, exprs=exprs)
            self.err("unexpected keyword")
        # exprstat: assignment or call
        e = self.suffixedexp()
        if self.check("op", "=") or self.check("op", ","):
            targets = [e]
            while self.accept("op", ","):
                targets.append(self.suffixedexp())
            self.expect("op", "=")
            exprs = self.exprlist()
            return N("assign", ln, targets=targets, exprs=exprs, is_funcstat=False)
        if e.kind not in ("call", "methcall"):
            self.err("syntax error: expression is not a statement")
        return N("callstat", ln, call=e)

    def funcbody(self, ln, is_method):
        self.expect("op", "(")
        params = ["self"] if is_method else []
        vararg = False
        if not self.check("op", ")"):
            while True:
                if self.accept("op", "..."):
                    vararg = True
                    break
                params.append(self.expect("name").val)
                if not self.accept("op", ","):
                    break
        self.expect("op", ")")
        body = self.block()
        self.expect("kw", "end")
        return N("function", ln, params=params, vararg=vararg, body=body, name=None)

    def exprlist(self):
        out = [self.expr()]
        while self.accept("op", ","):
            out.append(self.expr())
        return out

    def primaryexp(self):
        t = self.t
        if t.kind == "name":
            self.p += 1
            return N("name", t.line, id=t.val)
        if self.accept("op", "("):
            e = self.expr()
            self.expect("op", ")")
            return N("paren", t.line, expr=e)
        self.err("unexpected symbol")

    def suffixedexp(self):
        e = self.primaryexp()
        while True:
            t = self.t
            if self.accept("op", "."):
                e = N("index", t.line, obj=e, key=N("string", t.line, value=self.expect("name").val))
            elif self.accept("op", "["):
                k = self.expr()
                self.expect("op", "]")
                e = N("index", t.line, obj=e, key=k)
            elif self.accept("op", ":"):
                name = self.expect("name").val
                args = self.callargs()
                e = N("methcall", t.line, obj=e, method=name, args=args)
            elif self.check("op", "(") or self.check("string") or self.check("op", "{"):
                args = self.callargs()
                e = N("call", t.line, func=e, args=args)
            else:
                return e

    def callargs(self):
        t = self.t
        if t.kind == "string":
            self.p += 1
            return [N("string", t.line, value=t.val)]
        if self.check("op", "{"):
            return [self.tablector()]
        self.expect("op", "(")
        args = []
        if not self.check("op", ")"):
            args = self.exprlist()
        self.expect("op", ")")
        return args

    def tablector(self):
        ln = self.t.line
        self.expect("op", "{")
        fields = []  # (key expr or None for positional, value)
        pos = 0
        while not self.check("op", "}"):
            if self.check("op", "["):
                self.p += 1
                k = self.expr()
                self.expect("op", "]")
                self.expect("op", "=")
                fields.append((k, self.expr()))
            elif self.t.kind == "name" and self.toks[self.p + 1].kind == "op" and self.toks[self.p + 1].val == "=":
                k = N("string", self.t.line, value=self.t.val)
                self.p += 2
                fields.append((k, self.expr()))
            else:
                pos += 1
                fields.append((N("number", self.t.line, value=str(pos)), self.expr()))
            if not (self.accept("op", ",") or self.accept("op", ";")):
                break
        self.expect("op", "}")
        return N("table", ln, fields=fields)

    def simpleexp(self):
        t = self.t
        if t.kind == "number":
            self.p += 1
            return N("number", t.line, value=t.val)
        if t.kind == "string":
            self.p += 1
            return N("string", t.line, value=t.val)
        if t.kind == "kw" and t.val in ("nil", "true", "false"):
            self.p += 1
            return N(t.val, t.line)
        if t.kind == "op" and t.val == "...":
            self.p += 1
            return N("vararg", t.line)
        if t.kind == "op" and t.val == "{":
            return self.tablector()
        if t.kind == "kw" and t.val == "function":
            self.p += 1
            return self.funcbody(t.line, False)
        return self.suffixedexp()

    def expr(self, limit=0):
        t = self.t
        if (t.kind == "kw" and t.val == "not") or (t.kind == "op" and t.val in ("-", "#")):
            self.p += 1
            operand = self.expr(UNARY_PRI)
            left = N("unop", t.line, op=t.val, operand=operand)
        else:
            left = self.simpleexp()
        while True:
            t = self.t
            op = t.val if (t.kind == "op" or (t.kind == "kw" and t.val in ("and", "or"))) else None
            if op not in BINPRI or BINPRI[op][0] <= limit:
                break
            self.p += 1
            right = self.expr(BINPRI[op][1])
            left = N("binop", t.line, op=op, left=left, right=right)
        return left


def _target_text(e) -> str:
    if e.kind == "name":
        return e.id
    if e.kind == "index":
        k = e.key.value if e.key.kind == "string" else "?"
        return _target_text(e.obj) + "." + k
    return "?"


def parse(src: str, fname: str = "?"):
    return Parser(src, fname).chunk()


# ---------------------------------------------------------------------------
# traversal and scope resolution


def children(n):
    """child nodes (statements and expressions) of an AST node"""
    k = n.kind
    if k in ("chunk", "do"):
        return list(n.body)
    if k == "function":
        return list(n.body)
    if k == "if":
        out = []
        for c, b in n.clauses:
            out.append(c)
            out.extend(b)
        if n.orelse:
            out.extend(n.orelse)
        return out
    if k in ("while", "repeat"):
        return [n.cond] + list(n.body)
    if k == "fornum":
        return [x for x in (n.start, n.stop, n.step) if x is not None] + list(n.body)
    if k == "forin":
        return list(n.exprs) + list(n.body)
    if k == "return":
        return list(n.exprs)
    if k == "assign":
        return list(n.targets) + list(n.exprs)
    if k == "local":
        return list(n.exprs)
    if k == "localfunction":
        return [n.func]
    if k == "callstat":
        return [n.call]
    if k == "call":
        return [n.func] + list(n.args)
    if k == "methcall":
        return [n.obj] + list(n.args)
    if k == "index":
        return [n.obj, n.key]
    if k == "paren":
        return [n.expr]
    if k == "unop":
        return [n.operand]
    if k == "binop":
        return [n.left, n.right]
    if k == "table":
        out = []
        for kk, v in n.fields:
            if kk is not None:
                out.append(kk)
            out.append(v)
        return out
    return []


def walk(n):
    stack = [n]
    while stack:
        x = stack.pop()
        yield x
        stack.extend(reversed(children(x)))


class Decl:
    """a local variable declaration (or parameter)"""

    def __init__(self, name, node, func, value=None, kind="local"):
        self.name = name
        self.node = node
        self.func = func  # function node (or chunk) it belongs to
        self.value = value  # initialiser expression if single-assigned at declaration
        self.kind = kind
        self.assigned_later = []  # other assignments to this local


class Resolver:
    """Resolves every `name` node to a Decl (local/upvalue) or marks it global."""

    def __init__(self, chunk):
        self.chunk = chunk
        self.ref: dict = {}  # name node -> Decl or None (global)
        self.func_of: dict = {}  # node -> enclosing function node
        self.global_assigns: list = []  # (name, value expr, stmt, func)
        self.decls: list = []
        self._func(chunk, [], None)

    def _func(self, fn, scopes, parent):
        scope = {}
        scopes = scopes + [scope]
        if fn.kind == "function":
            for p in fn.params:
                d = Decl(p, fn, fn, None, "param")
                scope[p] = d
                self.decls.append(d)
        self._block(fn.body, scopes, fn)

    def _lookup(self, scopes, name):
        for s in reversed(scopes):
            if name in s:
                return s[name]
        return None

    def _block(self, stmts, scopes, fn, new_scope=True):
        if new_scope:
            scopes = scopes + [{}]
        for st in stmts:
            self._stmt(st, scopes, fn)

    def _stmt(self, st, scopes, fn):
        self.func_of[st] = fn
        k = st.kind
        if k == "local":
            for e in st.exprs:
                self._expr(e, scopes, fn)
            for i, nm in enumerate(st.names):
                val = st.exprs[i] if i < len(st.exprs) else None
                d = Decl(nm, st, fn, val)
                scopes[-1][nm] = d
                self.decls.append(d)
        elif k == "localfunction":
            d = Decl(st.name, st, fn, st.func)
            scopes[-1][st.name] = d
            self.decls.append(d)
            self._expr(st.func, scopes, fn)
        elif k == "assign":
            for e in st.exprs:
                self._expr(e, scopes, fn)
            for i, t in enumerate(st.targets):
                val = st.exprs[i] if i < len(st.exprs) else None
                if t.kind == "name":
                    d = self._lookup(scopes, t.id)
                    self.ref[t] = d
                    self.func_of[t] = fn
                    if d is None:
                        self.global_assigns.append((t.id, val, st, fn))
                    else:
                        d.assigned_later.append((val, st, fn))
                else:
                    self._expr(t, scopes, fn)
        elif k == "callstat":
            self._expr(st.call, scopes, fn)
        elif k == "return":
            for e in st.exprs:
                self._expr(e, scopes, fn)
        elif k == "if":
            for c, b in st.clauses:
                self._expr(c, scopes, fn)
                self._block(b, scopes, fn)
            if st.orelse:
                self._block(st.orelse, scopes, fn)
        elif k == "while":
            self._expr(st.cond, scopes, fn)
            self._block(st.body, scopes, fn)
        elif k == "repeat":
            sc = scopes + [{}]
            for s2 in st.body:
                self._stmt(s2, sc, fn)
            self._expr(st.cond, sc, fn)
        elif k == "do":
            self._block(st.body, scopes, fn)
        elif k == "fornum":
            for e in (st.start, st.stop, st.step):
                if e is not None:
                    self._expr(e, scopes, fn)
            sc = scopes + [{st.var: Decl(st.var, st, fn, None, "loopvar")}]
            self._block(st.body, sc, fn, new_scope=False)
        elif k == "forin":
            for e in st.exprs:
                self._expr(e, scopes, fn)
            sc = scopes + [{nm: Decl(nm, st, fn, None, "loopvar") for nm in st.names}]
            self._block(st.body, sc, fn, new_scope=False)
        elif k == "break":
            pass

    def _expr(self, e, scopes, fn):
        self.func_of[e] = fn
        if e.kind == "name":
            self.ref[e] = self._lookup(scopes, e.id)
        elif e.kind == "function":
            self._func(e, scopes, fn)
        else:
            for c in children(e):
                self._expr(c, scopes, fn)


LUA_REF_PATH = os.path.join(os.path.dirname(os.path.dirname(os.path.abspath(__file__))), "reference_lua.json")
_LUA_REF = None


def lua_reference() -> dict:
    """{file name: [function names of the pinned tree]} (tools/gen_reference_locals.py)"""
    global _LUA_REF
    if _LUA_REF is None:
        try:
            import json

            with open(LUA_REF_PATH, encoding="utf-8") as f:
                _LUA_REF = json.load(f)
        except OSError:
            _LUA_REF = {}
    return _LUA_REF


def function_names(chunk) -> list:
    out = []
    for n in walk(chunk):
        if n.kind == "localfunction":
            out.append(n.name)
        elif n.kind == "assign":
            for t, v in zip(n.targets, n.exprs):
                if v.kind == "function":
                    out.append(_target_text(t))
        elif n.kind == "local":
            for nm, v in zip(n.names, n.exprs):
                if v.kind == "function":
                    out.append(nm)
    return sorted(set(out))


def _deepcopy(n):
    import copy

    return copy.deepcopy(n)


def inline_new_helpers(chunk, pinned: set) -> int:
    """Helper extraction undone for the Lua sources: a `local function h() ... end` that the pinned tree does not have, takes
    no parameters and is not recursive is inlined -- `h()` as a statement becomes its body (when the body has no return),
    `h()` as an expression becomes the returned expression (when the body is a single `return e`).  Returns the number of
    inlined calls.  Helpers with parameters, several returns or returns in the middle are left alone (the rules then see a
    call they do not know, which makes them inconclusive, not wrong)."""
    helpers = {}
    for n in walk(chunk):
        if n.kind == "localfunction" and n.name not in pinned and not n.func.params and not getattr(n.func, "vararg", False):
            body = n.func.body
            calls_self = any(c.kind == "call" and c.func.kind == "name" and c.func.id == n.name for c in walk(n.func))
            if calls_self:
                continue
            rets = [x for x in walk(n.func) if x.kind == "return"]
            nested_fn_rets = [x for f in walk(n.func) if f.kind == "function" and f is not n.func for x in walk(f) if x.kind == "return"]
            own_rets = [x for x in rets if not any(x is y for y in nested_fn_rets)]
            if not own_rets:
                helpers[n.name] = ("stmts", body)
            elif len(own_rets) == 1 and len(body) == 1 and body[0] is own_rets[0] and len(own_rets[0].exprs) == 1:
                helpers[n.name] = ("expr", own_rets[0].exprs[0])
    if not helpers:
        return 0
    count = 0

    def is_call(e, kind):
        return e.kind == "call" and e.func.kind == "name" and e.func.id in helpers and helpers[e.func.id][0] == kind and not e.args

    def rewrite_expr(e):
        nonlocal count
        if e is None:
            return e
        if is_call(e, "expr"):
            count += 1
            return rewrite_expr(_deepcopy(helpers[e.func.id][1]))
        k = e.kind
        if k == "call":
            e.func = rewrite_expr(e.func)
            e.args = [rewrite_expr(a) for a in e.args]
        elif k == "methcall":
            e.obj = rewrite_expr(e.obj)
            e.args = [rewrite_expr(a) for a in e.args]
        elif k == "index":
            e.obj, e.key = rewrite_expr(e.obj), rewrite_expr(e.key)
        elif k == "paren":
            e.expr = rewrite_expr(e.expr)
        elif k == "unop":
            e.operand = rewrite_expr(e.operand)
        elif k == "binop":
            e.left, e.right = rewrite_expr(e.left), rewrite_expr(e.right)
        elif k == "table":
            e.fields = [(kk if kk is None else rewrite_expr(kk), rewrite_expr(v)) for kk, v in e.fields]
        elif k == "function":
            e.body = rewrite_block(e.body)
        return e

    def rewrite_block(stmts):
        nonlocal count
        out = []
        for st in stmts:
            k = st.kind
            if k == "callstat" and is_call(st.call, "stmts"):
                count += 1
                out.extend(rewrite_block(_deepcopy(helpers[st.call.func.id][1])))
                continue
            if k == "localfunction":
                if st.name in helpers:
                    continue  # definition of an inlined helper
                st.func.body = rewrite_block(st.func.body)
            elif k in ("do", "function"):
                st.body = rewrite_block(st.body)
            elif k == "if":
                st.clauses = [(rewrite_expr(c), rewrite_block(b)) for c, b in st.clauses]
                if st.orelse is not None:
                    st.orelse = rewrite_block(st.orelse)
            elif k in ("while", "repeat"):
                st.cond = rewrite_expr(st.cond)
                st.body = rewrite_block(st.body)
            elif k == "fornum":
                st.start, st.stop = rewrite_expr(st.start), rewrite_expr(st.stop)
                st.step = rewrite_expr(st.step) if st.step is not None else None
                st.body = rewrite_block(st.body)
            elif k == "forin":
                st.exprs = [rewrite_expr(e) for e in st.exprs]
                st.body = rewrite_block(st.body)
            elif k == "return":
                st.exprs = [rewrite_expr(e) for e in st.exprs]
            elif k == "assign":
                st.targets = [rewrite_expr(t) for t in st.targets]
                st.exprs = [rewrite_expr(e) for e in st.exprs]
            elif k == "local":
                st.exprs = [rewrite_expr(e) for e in st.exprs]
            elif k == "callstat":
                st.call = rewrite_expr(st.call)
            out.append(st)
        return out

    chunk.body = rewrite_block(chunk.body)
    return count


def chunk_locals(chunk) -> list:
    out = []
    for st in chunk.body:
        if st.kind == "local":
            out.extend(st.names)
        elif st.kind == "localfunction":
            out.append(st.name)
    return sorted(set(out))


def unroll_constant_loops(chunk, pinned_locals: set) -> int:
    """`local T = {c1, c2, ...}` (a list of constants that the pinned tree does not have) followed by
    `for i = 1, #T do BODY end` or `for _, v in ipairs(T) do BODY end`, where BODY reads the loop variable only as `T[i]`
    (resp. `v`), is the sequence BODY[c1], BODY[c2], ... -- a table-driven rewrite of repeated statements is turned back into
    the statements.  Concatenations of string constants produced by the substitution are folded.  Returns the number of loops
    unrolled."""
    tables = {}
    for st in chunk.body:
        if st.kind == "local" and len(st.names) == 1 and len(st.exprs) == 1 and st.exprs[0].kind == "table" and st.names[0] not in pinned_locals:
            t = st.exprs[0]
            if t.fields and all(k is not None and k.kind == "number" for k, v in t.fields) and all(v.kind in ("string", "number") for k, v in t.fields):
                tables[st.names[0]] = [v for k, v in t.fields]
    def const_list(t):
        if t.kind == "table" and t.fields and all((k is None or k.kind == "number") for k, v in t.fields) \
                and all(v.kind in ("string", "number") for k, v in t.fields):
            return [v for k, v in t.fields]
        return None

    # `for _, v in ipairs({c1, c2, ...})` with the list written in place
    inline_lists = any(st.kind == "forin" and len(st.exprs) == 1 and st.exprs[0].kind == "call" and len(st.exprs[0].args) == 1
                       and const_list(st.exprs[0].args[0]) is not None for st in chunk.body)
    if not tables and not inline_lists:
        return 0
    # a table that is read or written anywhere except by such loops is left alone
    count = 0

    def subst(n, pred, repl):
        """replace every sub-expression satisfying pred by a copy of repl"""
        if n is None:
            return n
        if pred(n):
            return _deepcopy(repl)
        k = n.kind
        for fld in ("func", "obj", "key", "expr", "operand", "left", "right", "cond", "start", "stop", "step", "call"):
            if hasattr(n, fld) and getattr(n, fld) is not None and hasattr(getattr(n, fld), "kind"):
                setattr(n, fld, subst(getattr(n, fld), pred, repl))
        for fld in ("args", "exprs", "targets", "body"):
            if hasattr(n, fld) and isinstance(getattr(n, fld), list):
                setattr(n, fld, [subst(x, pred, repl) if hasattr(x, "kind") else x for x in getattr(n, fld)])
        if k == "table":
            n.fields = [(kk if kk is None else subst(kk, pred, repl), subst(v, pred, repl)) for kk, v in n.fields]
        if k == "if":
            n.clauses = [(subst(c, pred, repl), [subst(x, pred, repl) for x in b]) for c, b in n.clauses]
            if n.orelse is not None:
                n.orelse = [subst(x, pred, repl) for x in n.orelse]
        if k == "localfunction":
            n.func = subst(n.func, pred, repl)
        return n

    def fold(n):
        if n is None or not hasattr(n, "kind"):
            return n
        for fld in ("func", "obj", "key", "expr", "operand", "left", "right", "cond", "start", "stop", "step", "call"):
            if hasattr(n, fld) and getattr(n, fld) is not None and hasattr(getattr(n, fld), "kind"):
                setattr(n, fld, fold(getattr(n, fld)))
        for fld in ("args", "exprs", "targets", "body"):
            if hasattr(n, fld) and isinstance(getattr(n, fld), list):
                setattr(n, fld, [fold(x) if hasattr(x, "kind") else x for x in getattr(n, fld)])
        if n.kind == "binop" and n.op == "..":
            l, r = n.left, n.right
            if l.kind == "string" and r.kind == "string":
                return N("string", n.line, value=l.value + r.value)
            # a .. ("x" .. rest) with a == string
            if l.kind == "string" and r.kind == "binop" and r.op == ".." and r.left.kind == "string":
                return fold(N("binop", n.line, op="..", left=N("string", n.line, value=l.value + r.left.value), right=r.right))
        return n

    def uses_var(body, var, allowed_pred) -> bool:
        for st in body:
            for x in walk(st):
                if x.kind == "name" and x.id == var:
                    # is this occurrence the key of an allowed T[i]?
                    if not allowed_pred(x):
                        return True
        return False

    new_body = []
    for st in chunk.body:
        done = False
        if st.kind == "fornum" and st.step is None and st.start.kind == "number" and str(st.start.value) in ("1", "1.0") \
                and st.stop.kind == "unop" and st.stop.op == "#" and st.stop.operand.kind == "name" and st.stop.operand.id in tables:
            T, i = st.stop.operand.id, st.var
            idx_nodes = [x for b in st.body for x in walk(b) if x.kind == "index" and x.obj.kind == "name" and x.obj.id == T and x.key.kind == "name" and x.key.id == i]
            keys = {id(x.key) for x in idx_nodes}
            if idx_nodes and not uses_var(st.body, i, lambda x: id(x) in keys):
                for el in tables[T]:
                    for b in st.body:
                        c = _deepcopy(b)
                        c = subst(c, lambda x: x.kind == "index" and x.obj.kind == "name" and x.obj.id == T and x.key.kind == "name" and x.key.id == i, el)
                        new_body.append(fold(c))
                count += 1
                done = True
        elif st.kind == "forin" and len(st.exprs) == 1 and st.exprs[0].kind == "call" and text(st.exprs[0].func) in ("ipairs", "_orig_ipairs") \
                and len(st.exprs[0].args) == 1 and st.exprs[0].args[0].kind == "name" and st.exprs[0].args[0].id in tables and len(st.names) == 2:
            T, iv, v = st.exprs[0].args[0].id, st.names[0], st.names[1]
            if not uses_var(st.body, iv, lambda x: False):
                for el in tables[T]:
                    for b in st.body:
                        c = subst(_deepcopy(b), lambda x: x.kind == "name" and x.id == v, el)
                        new_body.append(fold(c))
                count += 1
                done = True
        elif st.kind == "forin" and len(st.exprs) == 1 and st.exprs[0].kind == "call" and text(st.exprs[0].func) in ("ipairs", "_orig_ipairs") \
                and len(st.exprs[0].args) == 1 and const_list(st.exprs[0].args[0]) is not None and len(st.names) == 2:
            iv, v = st.names
            assigned = any(x.kind in ("assign", "local") and any(getattr(t, "kind", None) == "name" and t.id == v for t in getattr(x, "targets", []))
                           for b in st.body for x in walk(b))
            if not uses_var(st.body, iv, lambda x: False) and not assigned:
                for el in const_list(st.exprs[0].args[0]):
                    for b in st.body:
                        c = subst(_deepcopy(b), lambda x: x.kind == "name" and x.id == v, el)
                        new_body.append(fold(c))
                count += 1
                done = True
        if not done:
            new_body.append(st)
    chunk.body = new_body
    return count


class LuaFile:
    def __init__(self, path: str):
        self.path = path
        self.name = os.path.basename(path)
        with open(path, encoding="utf-8") as f:
            self.src = f.read()
        self.chunk = parse(self.src, self.name)
        self.inlined_helpers = 0
        pinned = lua_reference().get(self.name)
        self.unrolled_loops = 0
        if pinned is not None and os.environ.get("VERIF_NO_CANON") != "1":
            self.inlined_helpers = inline_new_helpers(self.chunk, set(pinned["functions"]))
            self.unrolled_loops = unroll_constant_loops(self.chunk, set(pinned["locals"]))
        self.res = Resolver(self.chunk)
        self.functions = [n for n in walk(self.chunk) if n.kind == "function"]

    def func_named(self, name: str):
        """function defined as `function name(...)`, `local function name` or `name = function`"""
        for n in walk(self.chunk):
            if n.kind == "localfunction" and n.name == name:
                return n.func
            if n.kind == "assign":
                for t, v in zip(n.targets, n.exprs):
                    if v.kind == "function" and _target_text(t) == name:
                        return v
            if n.kind == "local":
                for nm, v in zip(n.names, n.exprs):
                    if nm == name and v.kind == "function":
                        return v
        return None


class LuaProject:
    def __init__(self, index):
        self.index = index
        self.dir = os.path.join(index.pkgdir, "lua")
        if not os.path.isdir(self.dir):
            raise AnalysisError("lua directory vanished")
        self.files: dict = {}
        for fn in sorted(os.listdir(self.dir)):
            if fn.endswith(".lua"):
                self.files[fn] = LuaFile(os.path.join(self.dir, fn))
        if len(self.files) < 10:
            raise AnalysisError("only {} shipped .lua files parsed (14 confirmed by hand)".format(len(self.files)))

    def file(self, name: str) -> LuaFile:
        if name not in self.files:
            raise AnalysisError("anchor Lua file vanished: " + name)
        return self.files[name]


# ---------------------------------------------------------------------------
# origin resolution


def const_string(e) -> Optional[str]:
    if e is None:
        return None
    if e.kind == "string":
        return e.value
    if e.kind == "paren":
        return const_string(e.expr)
    return None


def text(e) -> str:
    """normalised source-ish text of an expression (for keys and reports)"""
    if e is None:
        return "nil"
    k = e.kind
    if k == "name":
        return e.id
    if k == "string":
        return repr(e.value)
    if k == "number":
        return e.value
    if k in ("nil", "true", "false"):
        return k
    if k == "vararg":
        return "..."
    if k == "index":
        if e.key.kind == "string" and re.match(r"^[A-Za-z_]\w*$", e.key.value):
            return text(e.obj) + "." + e.key.value
        return "{}[{}]".format(text(e.obj), text(e.key))
    if k == "call":
        return "{}({})".format(text(e.func), ", ".join(text(a) for a in e.args))
    if k == "methcall":
        return "{}:{}({})".format(text(e.obj), e.method, ", ".join(text(a) for a in e.args))
    if k == "paren":
        return "(" + text(e.expr) + ")"
    if k == "unop":
        return "{} {}".format(e.op, text(e.operand))
    if k == "binop":
        return "{} {} {}".format(text(e.left), e.op, text(e.right))
    if k == "function":
        return "function({})".format(", ".join(e.params))
    if k == "table":
        return "{...}"
    return "<" + k + ">"


class Origin:
    """Where a value comes from, resolved through local aliases.
    kind: 'global' (path like 'os.time'), 'function' (a function node defined in
    the sandbox sources), 'table' (a table constructor node), 'const', 'param',
    'unknown'."""

    def __init__(self, kind, path=None, node=None):
        self.kind = kind
        self.path = path
        self.node = node

    def __repr__(self):
        return "Origin({}, {})".format(self.kind, self.path or self.node)


def origin_of(lf: LuaFile, e, depth: int = 0) -> Origin:
    if e is None or depth > 12:
        return Origin("unknown")
    k = e.kind
    if k == "paren":
        return origin_of(lf, e.expr, depth + 1)
    if k == "function":
        return Origin("function", node=e)
    if k == "table":
        return Origin("table", node=e)
    if k in ("string", "number", "nil", "true", "false"):
        return Origin("const", path=text(e))
    if k == "name":
        d = lf.res.ref.get(e)
        if d is None:
            # a global: either a host global, or a global function defined in this file
            for nm, val, st, fn in lf.res.global_assigns:
                if nm == e.id and val is not None and val.kind == "function":
                    return Origin("function", node=val, path=nm)
            return Origin("global", path=e.id)
        if d.kind in ("param", "loopvar"):
            return Origin("param", path=d.name)
        if d.value is not None and not d.assigned_later:
            return origin_of(lf, d.value, depth + 1)
        if d.value is not None and d.value.kind == "function":
            return Origin("function", node=d.value, path=d.name)
        if d.value is not None and d.value.kind == "table":
            return Origin("table", node=d.value, path=d.name)
        if d.value is not None:
            o = origin_of(lf, d.value, depth + 1)
            o2 = Origin(o.kind, o.path, o.node)
            return o2
        return Origin("unknown", path=d.name)
    if k == "index":
        base = origin_of(lf, e.obj, depth + 1)
        key = const_string(e.key)
        if base.kind == "global" and key is not None:
            return Origin("global", path=base.path + "." + key)
        if base.kind == "table" and key is not None:
            for kk, v in base.node.fields:
                if const_string(kk) == key:
                    return origin_of(lf, v, depth + 1)
        return Origin("unknown", path=text(e))
    if k == "binop" and e.op in ("or", "and"):
        return Origin("unknown", path=text(e))
    if k in ("call", "methcall"):
        return Origin("unknown", path=text(e))
    return Origin("unknown", path=text(e))


def globals_touched(lf: LuaFile, fn) -> set:
    """host-global paths referenced (through aliases) in the body of a function,
    including nested function bodies; only maximal paths (os.time, not os)"""
    out = set()
    inner = set()
    for n in walk(fn):
        if n.kind == "index":
            o = origin_of(lf, n)
            if o.kind == "global":
                inner.add(id(n.obj))
    for n in walk(fn):
        if (n.kind == "name" or n.kind == "index") and id(n) not in inner:
            o = origin_of(lf, n)
            if o.kind == "global":
                out.add(o.path)
    return out


def calls_in(fn) -> list:
    return [n for n in walk(fn) if n.kind in ("call", "methcall")]
