"""E4 SQL facts: every SQL text that reaches <conn>.execute/executescript in the
package, with statement kind, table, column lists and the Python values bound."""

from __future__ import annotations

import ast
import re
from dataclasses import dataclass, field
from typing import Optional

from .index import Index, Unfoldable, walk_no_nested

EXEC_METHODS = {"execute", "executescript", "executemany"}


@dataclass
class Sql:
    text: str  # statement text (one statement), dynamic parts shown as {?}
    kind: str  # SELECT / INSERT / UPDATE / DELETE / CREATE TABLE / PRAGMA / OTHER
    table: str
    module: str
    function: str
    relfile: str
    call: ast.Call
    dynamic: bool = False  # text had parts that could not be folded
    insert_cols: list = field(default_factory=list)
    n_placeholders: int = 0
    conflict_cols: list = field(default_factory=list)
    set_pairs: list = field(default_factory=list)  # (col, rhs text)
    upsert_where: str = ""
    select_cols: list = field(default_factory=list)
    create_cols: list = field(default_factory=list)
    pk_cols: list = field(default_factory=list)
    where: str = ""
    bound: Optional[ast.AST] = None  # second positional argument of execute

    @property
    def writes(self) -> bool:
        return self.kind in ("INSERT", "UPDATE", "DELETE", "REPLACE")

    @property
    def reads(self) -> bool:
        return self.kind == "SELECT"


def _names(s: str) -> list:
    return [x.strip().strip('"`[]') for x in s.split(",") if x.strip()]


def parse_sql(text: str) -> dict:
    t = re.sub(r"\s+", " ", text).strip()
    up = t.upper()
    d: dict = {"kind": "OTHER", "table": ""}
    m = re.match(r"CREATE TABLE (IF NOT EXISTS )?(\w+)\s*\((.*)\)\s*$", t, re.I | re.S)
    if m:
        d["kind"] = "CREATE TABLE"
        d["table"] = m.group(2)
        body = m.group(3)
        cols, pk = [], []
        depth = 0
        cur = ""
        parts = []
        for ch in body:
            if ch == "(":
                depth += 1
            elif ch == ")":
                depth -= 1
            if ch == "," and depth == 0:
                parts.append(cur)
                cur = ""
            else:
                cur += ch
        parts.append(cur)
        for p in parts:
            p = p.strip()
            mm = re.match(r"PRIMARY KEY\s*\((.*)\)", p, re.I)
            if mm:
                pk = _names(mm.group(1))
            elif p:
                name = p.split()[0]
                cols.append(name)
                if re.search(r"PRIMARY KEY", p, re.I):
                    pk.append(name)
        d["create_cols"] = cols
        d["pk_cols"] = pk
        return d
    if up.startswith("INSERT") or up.startswith("REPLACE"):
        d["kind"] = "INSERT"
        m = re.match(r"(?:INSERT(?: OR \w+)?|REPLACE) INTO (\w+)\s*(?:\(([^)]*)\))?\s*VALUES\s*\(([^)]*)\)(.*)$", t, re.I)
        if m:
            d["table"] = m.group(1)
            d["insert_cols"] = _names(m.group(2) or "")
            d["n_placeholders"] = m.group(3).count("?")
            rest = m.group(4)
            mc = re.search(r"ON CONFLICT\s*\(([^)]*)\)\s*DO UPDATE SET (.*)$", rest, re.I)
            if mc:
                d["conflict_cols"] = _names(mc.group(1))
                sets = mc.group(2)
                mw = re.search(r"\bWHERE\b(.*)$", sets, re.I)
                if mw:
                    d["upsert_where"] = mw.group(1).strip()
                    sets = sets[: mw.start()]
                pairs = []
                for p in sets.split(","):
                    if "=" in p:
                        a, b = p.split("=", 1)
                        pairs.append((a.strip(), b.strip()))
                d["set_pairs"] = pairs
            elif re.search(r"ON CONFLICT", rest, re.I):
                d["conflict_cols"] = ["?"]
        else:
            m = re.match(r"INSERT(?: OR \w+)? INTO (\w+)", t, re.I)
            if m:
                d["table"] = m.group(1)
            d["n_placeholders"] = t.count("?")
        return d
    if up.startswith("UPDATE"):
        d["kind"] = "UPDATE"
        m = re.match(r"UPDATE (\w+) SET (.*?)(?: FROM (.*?))?(?: WHERE (.*))?$", t, re.I)
        if m:
            d["table"] = m.group(1)
            pairs = []
            for p in m.group(2).split(","):
                if "=" in p:
                    a, b = p.split("=", 1)
                    pairs.append((a.strip(), b.strip()))
            d["set_pairs"] = pairs
            d["from"] = (m.group(3) or "").strip()
            d["where"] = (m.group(4) or "").strip()
        return d
    if up.startswith("DELETE"):
        d["kind"] = "DELETE"
        m = re.match(r"DELETE FROM (\w+)", t, re.I)
        if m:
            d["table"] = m.group(1)
        return d
    if up.startswith("SELECT"):
        d["kind"] = "SELECT"
        m = re.match(r"SELECT (.*?) FROM (\w+)(.*)$", t, re.I)
        if m:
            d["select_cols"] = _names(m.group(1))
            d["table"] = m.group(2)
            mw = re.search(r"\bWHERE\b(.*)$", m.group(3), re.I)
            d["where"] = mw.group(1).strip() if mw else ""
        return d
    if up.startswith("PRAGMA"):
        d["kind"] = "PRAGMA"
    elif up.startswith("DROP"):
        d["kind"] = "DROP"
        m = re.match(r"DROP TABLE (IF EXISTS )?(\w+)", t, re.I)
        if m:
            d["table"] = m.group(2)
    return d


class SqlFacts:
    def __init__(self, index: Index):
        self.index = index
        self.statements: list = []
        for mn, m in index.modules.items():
            for q, f in m.funcs.items():
                self._scan(mn, m, q, f)

    def _string_of(self, modname: str, fn: ast.AST, e: ast.AST, before_line: int) -> tuple:
        """(text, dynamic)"""
        try:
            v = self.index.fold(modname, e)
            if isinstance(v, str):
                return v, False
        except Unfoldable:
            pass
        if isinstance(e, ast.JoinedStr):
            parts, dyn = [], False
            for v in e.values:
                if isinstance(v, ast.Constant):
                    parts.append(str(v.value))
                elif isinstance(v, ast.FormattedValue) and isinstance(v.value, ast.Name) and v.format_spec is None:
                    # a local holding (a base text of) a query fragment
                    sub, sdyn = self._string_of(modname, fn, v.value, before_line)
                    parts.append(sub)
                    dyn = dyn or sdyn
                else:
                    parts.append("{?}")
                    dyn = True
            return "".join(parts), dyn
        if isinstance(e, ast.BinOp) and isinstance(e.op, ast.Add):
            a, da = self._string_of(modname, fn, e.left, before_line)
            b, db = self._string_of(modname, fn, e.right, before_line)
            return a + b, da or db
        if isinstance(e, ast.Name):
            # the latest plain assignment before the call gives the base text;
            # augmented assignments after it make the text dynamic
            base_node = None
            for n in walk_no_nested(fn):
                if isinstance(n, ast.Assign) and len(n.targets) == 1 and isinstance(n.targets[0], ast.Name) \
                        and n.targets[0].id == e.id and n.lineno < before_line:
                    if any(isinstance(x, ast.Name) and x.id == e.id for x in ast.walk(n.value)):
                        continue  # x = x + ... handled as dynamic below
                    if base_node is None or n.lineno > base_node.lineno:
                        base_node = n
            if base_node is not None:
                base, dyn = self._string_of(modname, fn, base_node.value, base_node.lineno)
                for n in walk_no_nested(fn):
                    if base_node.lineno < getattr(n, "lineno", 0) < before_line:
                        if isinstance(n, ast.AugAssign) and isinstance(n.target, ast.Name) and n.target.id == e.id:
                            dyn = True
                        if isinstance(n, ast.Assign) and any(
                            isinstance(t, ast.Name) and t.id == e.id for t in n.targets
                        ):
                            dyn = True
                return base, dyn
        return "{?}", True

    def _loop_texts(self, modname: str, fn: ast.AST, e: ast.AST):
        """the SQL texts when `e` is the target of an enclosing `for` over a constant sequence of strings, else None"""
        if not isinstance(e, ast.Name):
            return None
        for loop in walk_no_nested(fn):
            if isinstance(loop, ast.For) and isinstance(loop.target, ast.Name) and loop.target.id == e.id \
                    and any(x is e for b in loop.body for x in ast.walk(b)):
                try:
                    v = self.index.fold(modname, loop.iter)
                except Unfoldable:
                    return None
                if isinstance(v, (tuple, list)) and v and all(isinstance(x, str) for x in v):
                    return list(v)
        return None

    def _scan(self, mn: str, m, q: str, f: ast.AST) -> None:
        for n in walk_no_nested(f):
            if not (isinstance(n, ast.Call) and isinstance(n.func, ast.Attribute) and n.func.attr in EXEC_METHODS):
                continue
            recv = ast.unparse(n.func.value)
            if not (recv.endswith("db_conn") or recv.endswith("conn") or recv.endswith("cursor")):
                continue
            if not n.args:
                continue
            texts = self._loop_texts(mn, f, n.args[0])
            if texts is not None:
                # `for q in (SQL1, SQL2): conn.execute(q)`: one statement per element of the constant sequence
                dyn = False
                stmts = texts
            else:
                text, dyn = self._string_of(mn, f, n.args[0], n.lineno)
                stmts = [s for s in text.split(";") if s.strip()] if n.func.attr == "executescript" else [text]
            for s in stmts:
                d = parse_sql(s)
                self.statements.append(
                    Sql(
                        text=re.sub(r"\s+", " ", s).strip(),
                        kind=d["kind"],
                        table=d.get("table", ""),
                        module=mn,
                        function=mn + "." + q,
                        relfile=m.relpath,
                        call=n,
                        dynamic=dyn,
                        insert_cols=d.get("insert_cols", []),
                        n_placeholders=d.get("n_placeholders", 0),
                        conflict_cols=d.get("conflict_cols", []),
                        set_pairs=d.get("set_pairs", []),
                        upsert_where=d.get("upsert_where", ""),
                        select_cols=d.get("select_cols", []),
                        create_cols=d.get("create_cols", []),
                        pk_cols=d.get("pk_cols", []),
                        where=d.get("where", ""),
                        bound=n.args[1] if len(n.args) > 1 else None,
                    )
                )

    def on_table(self, table: str) -> list:
        return [s for s in self.statements if s.table == table]

    def in_function(self, dotted: str) -> list:
        return [s for s in self.statements if s.function == dotted]
