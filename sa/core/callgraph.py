"""E3 call graph: intra-package, name-resolved.

Resolution rules (enumerated from how the package is written):
  f(...)            nested function of an enclosing def, else module-level
                    function, else a name imported with `from .mod import f`
  self.m(...) / ctx.m(...) / wtp.m(...)      method m of core.Wtp if it exists
  <anything>.m(...) where m is a method name unique to core.Wtp   (same)
  parameters that carry callbacks (expander, template_fn, ...) and the two
  registries are connected by the explicit DISPATCH table below.
Calls that do not resolve are kept as external names (informational).
"""

from __future__ import annotations

import ast
from typing import Iterable

from .index import FuncRef, Index, walk_no_nested

CTX_NAMES = {"self", "ctx", "wtp"}

# Edges that syntax alone does not show.  caller -> callees (dotted); a trailing
# ".*" means every function nested directly in that def.
DISPATCH = {
    # fn(ctx, fn_name, args, expander): every registered parser function
    "parserfns.call_parser_function": ["%PARSER_FUNCTIONS"],
    # tokenops[token](ctx, token)
    "parser.process_text": ["%tokenops"],
    # ctx.lua_invoke(...) runs Lua code that can call back every Python helper
    # handed to the sandbox and every frame method
    "luaexec.call_lua_sandbox": [
        "luaexec.call_lua_sandbox.make_frame.*",
        "%lua_helpers",
    ],
    # expander passed to parser functions and to call_lua_sandbox
    "%expander": ["core.Wtp.expand.expand_recurse.expand_parserfn.expander"],
}

CALLBACK_PARAMS = {"expander"}


class CallGraph:
    def __init__(self, index: Index):
        self.index = index
        self.edges: dict = {}
        self.external: dict = {}
        self.wtp_methods = {
            q.split(".", 1)[1]: "core." + q
            for q in index.mod("core").funcs
            if q.startswith("Wtp.") and q.count(".") == 1
        }
        # methods of the other classes of the package (WikiNode, TemplateNode, ...): `self.m()` inside the
        # class, and `x.m()` on any receiver when the method name is defined by exactly one package class
        # and is not a name that builtin containers/strings also have
        self.class_methods: dict = {}
        by_name: dict = {}
        for mn, m in index.modules.items():
            for cl in [n for n in m.tree.body if isinstance(n, ast.ClassDef)]:
                for st in cl.body:
                    if isinstance(st, (ast.FunctionDef, ast.AsyncFunctionDef)):
                        d = "{}.{}.{}".format(mn, cl.name, st.name)
                        self.class_methods[(mn, cl.name, st.name)] = d
                        if not (mn == "core" and cl.name == "Wtp"):
                            by_name.setdefault(st.name, []).append(d)
        builtin_like = set(dir(str)) | set(dir(list)) | set(dir(dict)) | set(dir(set)) | {"group", "groups", "start", "end", "span"}
        self.unique_methods = {n: ds[0] for n, ds in by_name.items() if len(ds) == 1 and n not in builtin_like and n not in self.wtp_methods}
        self._imports: dict = {}
        for mn, m in index.modules.items():
            imp = {}
            for n in ast.walk(m.tree):
                if isinstance(n, ast.ImportFrom) and n.level >= 1 and n.module in index.modules:
                    for a in n.names:
                        if a.name in index.modules[n.module].funcs:
                            imp[a.asname or a.name] = n.module + "." + a.name
            self._imports[mn] = imp
        for dotted, m, f in index.all_functions():
            self.edges[dotted] = set()
            self.external[dotted] = set()
        for dotted, m, f in index.all_functions():
            self._scan(dotted, m, f)
        self._dispatch()

    def _resolve_name(self, mn: str, qual: str, name: str):
        m = self.index.modules[mn]
        parts = qual.split(".")
        # nested function of this or an enclosing def
        for i in range(len(parts), 0, -1):
            cand = ".".join(parts[:i]) + "." + name
            if cand in m.funcs:
                return mn + "." + cand
        if name in m.funcs:
            return mn + "." + name
        if name in self._imports[mn]:
            return self._imports[mn][name]
        return None

    def _scan(self, dotted: str, m, f: ast.AST) -> None:
        mn, qual = dotted.split(".", 1)
        for n in walk_no_nested(f):
            if isinstance(n, ast.Lambda):
                # bodies of lambdas belong to the enclosing function
                for c in ast.walk(n.body):
                    if isinstance(c, ast.Call):
                        self._call(dotted, mn, qual, c)
                continue
            if isinstance(n, ast.Call):
                self._call(dotted, mn, qual, n)
            elif isinstance(n, (ast.ImportFrom,)) and n.level >= 1 and n.module in self.index.modules:
                for a in n.names:
                    if a.name in self.index.modules[n.module].funcs:
                        self._imports[mn].setdefault(a.asname or a.name, n.module + "." + a.name)

    def _call(self, dotted: str, mn: str, qual: str, c: ast.Call) -> None:
        f = c.func
        if isinstance(f, ast.Name):
            if f.id in CALLBACK_PARAMS:
                self.edges[dotted].add("%expander")
                return
            r = self._resolve_name(mn, qual, f.id)
            if r:
                self.edges[dotted].add(r)
            else:
                self.external[dotted].add(f.id)
        elif isinstance(f, ast.Attribute):
            if f.attr in self.wtp_methods:
                base = f.value
                if isinstance(base, ast.Name) and base.id in CTX_NAMES:
                    self.edges[dotted].add(self.wtp_methods[f.attr])
                    return
                if f.attr in ("get_page", "add_page", "start_page", "get_page_body", "page_exists", "_encode",
                              "_finalize_expand", "_save_value", "preprocess_text", "create_strip_marker",
                              "node_to_wikitext", "get_page_resolve_redirect", "check_template_need_expand",
                              "namespace_prefixes", "backup_db", "analyze_templates", "has_analyzed_templates"):
                    self.edges[dotted].add(self.wtp_methods[f.attr])
                    return
            # self.m() inside a class of the package
            parts = qual.split(".")
            if isinstance(f.value, ast.Name) and f.value.id == "self" and len(parts) >= 2 and (mn, parts[0], f.attr) in self.class_methods:
                self.edges[dotted].add(self.class_methods[(mn, parts[0], f.attr)])
                return
            if f.attr in self.unique_methods:
                self.edges[dotted].add(self.unique_methods[f.attr])
                return
            self.external[dotted].add(ast.unparse(f))
        # functions passed as arguments (callbacks): count as potential calls
        for a in list(c.args) + [k.value for k in c.keywords]:
            if isinstance(a, ast.Name):
                r = self._resolve_name(mn, qual, a.id)
                if r:
                    self.edges[dotted].add(r)

    def _dispatch(self) -> None:
        pf = self.index.consts("parserfns").get("PARSER_FUNCTIONS", {})
        reg = set()
        for v in pf.values():
            if isinstance(v, tuple):
                v = v[0]
            if isinstance(v, FuncRef):
                reg.add(v.mod + "." + v.name)
        tk = set()
        for v in self.index.consts("parser").get("tokenops", {}).values():
            if isinstance(v, FuncRef):
                tk.add(v.mod + "." + v.name)
        # handlers dispatched by the elif chain of process_text are direct calls already
        helpers = set()
        if self.index.has_func("luaexec.call_set_functions"):
            fn = self.index.func("luaexec.call_set_functions")
            for n in ast.walk(fn):
                if isinstance(n, ast.Name):
                    r = self._resolve_name("luaexec", "call_set_functions", n.id)
                    if r:
                        helpers.add(r)
            helpers.add("luaexec.lua_loader")
        sets = {"%PARSER_FUNCTIONS": reg, "%tokenops": tk, "%lua_helpers": helpers}
        self.registered_parser_functions = reg
        self.tokenop_handlers = tk
        self.lua_helpers = helpers
        self.edges["%expander"] = set()
        for caller, callees in DISPATCH.items():
            if caller not in self.edges:
                continue
            for c in callees:
                if c in sets:
                    self.edges[caller] |= sets[c]
                elif c.endswith(".*"):
                    pre = c[:-2]
                    mn, q = pre.split(".", 1)
                    for qq in self.index.modules[mn].funcs:
                        if qq.startswith(q + ".") and qq.count(".") == q.count(".") + 1:
                            self.edges[caller].add(mn + "." + qq)
                else:
                    if self.index.has_func(c):
                        self.edges[caller].add(c)

    def callees_in(self, dotted: str, node: ast.AST) -> set:
        """Resolved callees (plus %-pseudo nodes) of the calls inside `node`,
        which must be part of function `dotted`."""
        mn, qual = dotted.split(".", 1)
        saved_e, saved_x = self.edges.get(dotted, set()), self.external.get(dotted, set())
        self.edges[dotted], self.external[dotted] = set(), set()
        try:
            for c in ast.walk(node):
                if isinstance(c, ast.Call):
                    self._call(dotted, mn, qual, c)
            out = set(self.edges[dotted])
            ext = set(self.external[dotted])
        finally:
            self.edges[dotted], self.external[dotted] = saved_e, saved_x
        # explicit dispatch edges of the enclosing function apply when the node
        # contains the dispatching call (lua_invoke, fn(...), tokenops[...](...))
        for c in ast.walk(node):
            if isinstance(c, ast.Call):
                t = ast.unparse(c.func)
                if t.endswith(".lua_invoke") and dotted == "luaexec.call_lua_sandbox":
                    out |= {e for e in saved_e if e.startswith("luaexec.call_lua_sandbox.make_frame.")}
                    out |= self.lua_helpers
                if dotted == "parserfns.call_parser_function" and t == "fn":
                    out |= self.registered_parser_functions
                if dotted == "parser.process_text" and t.startswith("tokenops["):
                    out |= self.tokenop_handlers
        return out | {"%ext:" + e for e in ext}

    def closure(self, roots: Iterable) -> set:
        seen = set()
        stack = [r for r in roots]
        while stack:
            x = stack.pop()
            if x in seen:
                continue
            seen.add(x)
            stack.extend(self.edges.get(x, ()))
        return {s for s in seen if not s.startswith("%")}

    def reaches(self, targets: set) -> set:
        """All functions from which some function in `targets` is reachable."""
        rev: dict = {}
        for a, bs in self.edges.items():
            for b in bs:
                rev.setdefault(b, set()).add(a)
        seen = set()
        stack = list(targets)
        while stack:
            x = stack.pop()
            if x in seen:
                continue
            seen.add(x)
            stack.extend(rev.get(x, ()))
        return seen
