"""String-building expressions as templates: a list of literal pieces (str) and holes (ast expr).

Recognised: string constants, f-strings (without conversions that change the text other than !s), `"...".format(a, b)`
with `{}` / `{0}` fields, `"..." % (a, b)` with %s fields, and `+` concatenations of those.  Anything else is a single
hole, so a rule that looks for a literal context around a value sees the same thing whichever of the styles is used."""

from __future__ import annotations

import ast
import string
from typing import Optional


def template(e: ast.AST) -> list:
    if isinstance(e, ast.Constant) and isinstance(e.value, str):
        return [e.value]
    if isinstance(e, ast.JoinedStr):
        out: list = []
        for v in e.values:
            if isinstance(v, ast.Constant):
                out.append(str(v.value))
            elif isinstance(v, ast.FormattedValue):
                if isinstance(v.value, ast.Constant) and isinstance(v.value.value, str) and v.format_spec is None:
                    out.append(v.value.value)
                else:
                    out.append(v.value)
        return _merge(out)
    if isinstance(e, ast.BinOp) and isinstance(e.op, ast.Add):
        return _merge(template(e.left) + template(e.right))
    if isinstance(e, ast.Call) and isinstance(e.func, ast.Attribute) and e.func.attr == "format" \
            and isinstance(e.func.value, ast.Constant) and isinstance(e.func.value.value, str) and not e.keywords:
        t = _format_fields(e.func.value.value, e.args)
        if t is not None:
            return t
    if isinstance(e, ast.BinOp) and isinstance(e.op, ast.Mod) and isinstance(e.left, ast.Constant) and isinstance(e.left.value, str):
        args = list(e.right.elts) if isinstance(e.right, ast.Tuple) else [e.right]
        t = _percent_fields(e.left.value, args)
        if t is not None:
            return t
    return [e]


def _merge(parts: list) -> list:
    out: list = []
    for p in parts:
        if isinstance(p, ast.Constant) and isinstance(p.value, str):
            p = p.value   # a constant in a hole is text
        if isinstance(p, str) and out and isinstance(out[-1], str):
            out[-1] += p
        elif p != "":
            out.append(p)
    return out


def _format_fields(fmt: str, args: list) -> Optional[list]:
    out: list = []
    auto = 0
    try:
        for lit, field, spec, conv in string.Formatter().parse(fmt):
            if lit:
                out.append(lit)
            if field is None:
                continue
            if spec or (conv not in (None, "s")):
                return None
            if field == "":
                idx = auto
                auto += 1
            elif field.isdigit():
                idx = int(field)
            else:
                return None
            if idx >= len(args) or isinstance(args[idx], ast.Starred):
                return None
            out.append(args[idx])
    except ValueError:
        return None
    return _merge(out)


def _percent_fields(fmt: str, args: list) -> Optional[list]:
    out: list = []
    i = 0
    k = 0
    buf = ""
    while i < len(fmt):
        if fmt[i] == "%" and i + 1 < len(fmt):
            if fmt[i + 1] == "%":
                buf += "%"
            elif fmt[i + 1] == "s" and k < len(args):
                out.append(buf)
                buf = ""
                out.append(args[k])
                k += 1
            else:
                return None
            i += 2
        else:
            buf += fmt[i]
            i += 1
    out.append(buf)
    return _merge(out) if k == len(args) else None


def holes(tpl: list) -> list:
    """[(literal before, hole expr, literal after)]"""
    out = []
    for i, p in enumerate(tpl):
        if not isinstance(p, str):
            before = tpl[i - 1] if i > 0 and isinstance(tpl[i - 1], str) else ""
            after = tpl[i + 1] if i + 1 < len(tpl) and isinstance(tpl[i + 1], str) else ""
            out.append((before, p, after))
    return out
