"""Static-analysis checkers for wikitextprocessor (see /verif/DESIGN.md).

Nothing in this package imports or executes wikitextprocessor.  Every check
parses the current working tree of the repository (default /repo, override with
the environment variable VERIF_REPO for the self-test's scratch copies).
"""
