"""Command line driver.

    /venv/bin/python -m sa.check C16 [--tier quick|thorough]
    /venv/bin/python -m sa.check --replay evidence/violations/C16-R1-xxxx.json
    /venv/bin/python -m sa.check --all [--tier quick]

Environment: VERIF_REPO (default /repo), VERIF_TIER, VERIF_SEED.
"""

from __future__ import annotations

import argparse
import importlib
import json
import os
import sys
import time
import traceback

from .core.report import AnalysisError, finish

ALL = ["C%02d" % i for i in range(1, 21)]


def run_property(pid: str, tier: str, seed: int, only_rule: str = "") -> int:
    started = time.time()
    try:
        mod = importlib.import_module("sa.props." + pid.lower())
    except ModuleNotFoundError:
        print("ANALYSIS-ERROR property={} no checker module".format(pid))
        return 2
    try:
        from .core.context import Context

        from .core.report import guard_rules

        guard_rules(mod)
        ctx = Context(tier=tier, seed=seed)
        results = mod.run(ctx)
        if only_rule:
            results = [r for r in results if r.rule == only_rule]
        return finish(
            pid,
            tier,
            seed,
            results,
            started,
            explanation=mod.EXPLANATION,
            assumptions=list(mod.ASSUMPTIONS),
            extra={
                "analysed": ctx.analysed_summary(),
                "repo": ctx.index.root,
            },
        )
    except AnalysisError as e:
        print("ANALYSIS-ERROR property={} {}".format(pid, e))
        return 2
    except Exception:  # noqa: BLE001
        traceback.print_exc()
        print("ANALYSIS-ERROR property={} internal exception in the checker".format(pid))
        return 2


def main(argv=None) -> int:
    ap = argparse.ArgumentParser()
    ap.add_argument("property", nargs="?")
    ap.add_argument("--tier", default=os.environ.get("VERIF_TIER", "quick"))
    ap.add_argument("--replay")
    ap.add_argument("--all", action="store_true")
    a = ap.parse_args(argv)
    try:
        seed = int(os.environ.get("VERIF_SEED", "0"))
    except ValueError:
        seed = 0
    tier = a.tier if a.tier in ("quick", "thorough") else "quick"
    if a.replay:
        with open(a.replay, encoding="utf-8") as f:
            v = json.load(f)
        print("replaying rule {} for property {}".format(v["rule"], v["property"]))
        print("  reported construct: {} [{}] {}".format(v["file"], v["function"], v["construct"]))
        return run_property(v["property"], tier, seed, only_rule=v["rule"])
    if a.all:
        worst = 0
        for p in ALL:
            rc = run_property(p, tier, seed)
            worst = max(worst, rc)
        return worst
    if not a.property:
        ap.error("property id required")
    return run_property(a.property.upper(), tier, seed)


if __name__ == "__main__":
    rc = main()
    sys.stdout.flush()
    os._exit(rc)  # skip slow interpreter teardown (mypy)
